(** C17 — [IncrementalFormFiller]'s own tail assembly
    (writer/incremental_form_fill.rs [fill_many_impl], "assemble appended bytes" onwards, with
    [write_indirect_object], [write_indirect_stream_object], [write_partial_xref_section],
    [write_incremental_trailer]).

    The filler does not go through [IncrementalUpdate::finish] (C17/Model.v [finish]); it builds
    the appended section itself:

      out = base_bytes                                   -- NO end-of-line guard
         ++ the rewritten field dictionaries, in the order the fields were given (one per id)
         ++ the rewritten widget annotations          (separate-widget layouts)
         ++ the AcroForm object
         ++ the new appearance streams                (fresh ids base /Size, /Size+1, ...)
         ++ "xref\n" + subsections over [changed] SORTED BY OBJECT NUMBER (stable; the objects
            themselves are NOT sorted), maximal runs of consecutive numbers, "%010d %05d n \n"
         ++ "trailer\n<< /Size total /Root a b R /Prev p [/ID [<..> <..>] ]>>\nstartxref\nX\n%%EOF\n"

    Differences from [finish]: no newline is inserted after a base that lacks a final EOL (the first
    object then starts on the [%%EOF] line); bodies are in emission order; the sort key of the
    cross-reference lines is the object number alone; /Size is the running id counter.
    The object framing ("N G obj\n" body "\nendobj\n" — a stream object is a body that ends in
    "\nendstream"), the entry lines, the subsection headers and the trailer text are the same
    byte formats as in Model.v and are reused from there ([obj_bytes], [place], [group],
    [render_section], [trailer]).  Inputs of the model, as for [finish]: the serialised bodies
    (write_object / the appearance stream) and the MD5 second /ID string.

    This file adds definitions; nothing in Model.v changes. *)
From OxVerif Require Import Base.Util C04.Model C04.Proofs C17.Model C17.Proofs.
From Coq Require Import Permutation.

Record ffill := {
  ff_prev : N;                        (* reader.trailer().xref_offset of the base *)
  ff_root : N * N;
  ff_size : N;                        (* total_size = base /Size + number of new appearance streams *)
  ff_id : option (bytes * bytes);     (* permanent first /ID string, derived second string *)
  ff_objs : list robj                 (* in EMISSION order: fields, widgets, AcroForm, streams *)
}.

(** the trailer text only reads root / prev / id of an [upd] *)
Definition ff_upd (f : ffill) : upd :=
  {| u_prev := ff_prev f; u_root := ff_root f; u_orig_size := ff_size f; u_next_id := ff_size f;
     u_id := ff_id f; u_objs := ff_objs f |}.

(** [entries.sort_by_key(|(num, _, _)| *num)] — stable, object number only *)
Definition num_le (a b : N * N * N) : bool := fst (fst a) <=? fst (fst b).
Fixpoint ins_num (x : N * N * N) (l : list (N * N * N)) : list (N * N * N) :=
  match l with
  | [] => [x]
  | y :: r => if num_le x y then x :: y :: r else y :: ins_num x r
  end.
Definition sort_num (l : list (N * N * N)) : list (N * N * N) := fold_right ins_num [] l.

(** [changed]: (number, generation, out.len() before the object was written) *)
Definition fchanged (base : bytes) (f : ffill) : list (N * N * N) := place (len base) (ff_objs f).
Definition fxref (base : bytes) (f : ffill) : list (N * N * N) := sort_num (fchanged base f).

Definition filler_out (base : bytes) (f : ffill) : bytes :=
  let body := body_bytes (ff_objs f) in
  base ++ body ++ partial_xref (fxref base f) ++ trailer (ff_upd f) (ff_size f) (len base + len body).

(** the appended cross-reference section as C04's reader sees it *)
Definition fsection (base : bytes) (f : ffill) : section := Classic (group (entries_of (fxref base f))).
Definition fnew_def (base : bytes) (f : ffill) (n : N) : option def :=
  rev_find (map (fun c => (fst (fst c), Direct (snd c))) (fxref base f)) n.
Definition fnums (f : ffill) : list N := map (fun o : robj => fst (fst o)) (ff_objs f).

(** * executable checker (for a correspondence channel that records the filler's bytes):
    bit 1 = the output is not the model's; bit 2 = the output does not extend the base, or some
    object's "N G obj" line is not at the offset its cross-reference entry gives *)
Record ffcase := { fc_base : bytes; fc_fill : ffill; fc_out : bytes }.
Definition header_of (o : robj) : bytes := dec (fst (fst o)) ++ sp ++ dec (snd (fst o)) ++ s " obj" ++ nl.
Definition entry_points_at (out : bytes) (objs : list robj) (e : N * centry) : bool :=
  let '(n, CE off g u) := e in
  u && existsb (fun o : robj => (fst (fst o) =? n) && (snd (fst o) =? g)
                                && is_prefixb (header_of o) (skipn (N.to_nat off) out)) objs.
Definition filler_code (c : ffcase) : N :=
  let out := fc_out c in
  let model_ok := bytes_eqb (filler_out (fc_base c) (fc_fill c)) out in
  let ents := flatten (group (entries_of (fxref (fc_base c) (fc_fill c)))) in
  let prop_ok := is_prefixb (fc_base c) out
                 && (length ents =? length (ff_objs (fc_fill c)))%nat
                 && forallb (entry_points_at out (ff_objs (fc_fill c))) ents in
  code_of model_ok prop_ok.

(** * append-only *)
Theorem filler_is_append_lemma : forall base f, is_prefix base (filler_out base f).
Proof. intros base f. unfold filler_out, is_prefix. eexists. reflexivity. Qed.

(** no EOL guard: the first object's header follows the base's last byte immediately *)
Theorem filler_no_eol_guard_lemma : forall base f o post, ff_objs f = o :: post ->
  exists t, filler_out base f = base ++ header_of o ++ t.
Proof.
  intros base f [[n g] body] post E. unfold filler_out. rewrite E.
  unfold body_bytes. cbn [map concat]. unfold obj_bytes, header_of. cbn [fst snd].
  eexists. rewrite <- !app_assoc. reflexivity.
Qed.

(** * sorting the cross-reference lines *)
Lemma ins_num_perm x l : Permutation (ins_num x l) (x :: l).
Proof.
  induction l as [|y r IH]; cbn; [reflexivity|].
  destruct (num_le x y); [reflexivity|]. rewrite IH. apply perm_swap.
Qed.
Lemma sort_num_perm l : Permutation (sort_num l) l.
Proof.
  induction l as [|x r IH]; cbn; [reflexivity|].
  rewrite ins_num_perm. constructor. exact IH.
Qed.

Lemma fsection_flat base f : flatten (group (entries_of (fxref base f))) = entries_of (fxref base f).
Proof. apply group_flatten. Qed.

(** the section's lines are exactly the written objects, each once *)
Theorem filler_xref_perm_lemma : forall base f,
  Permutation (flatten (group (entries_of (fxref base f)))) (entries_of (fchanged base f)).
Proof.
  intros. rewrite fsection_flat. unfold entries_of, fxref. apply Permutation_map, sort_num_perm.
Qed.

(** * where the objects are *)
Lemma len_app {A} (a b : list A) : len (a ++ b) = len a + len b.
Proof. unfold len. rewrite app_length. lia. Qed.

Lemma body_bytes_app a b : body_bytes (a ++ b) = body_bytes a ++ body_bytes b.
Proof. unfold body_bytes. rewrite map_app, concat_app. reflexivity. Qed.

Lemma body_bytes_cons o r : body_bytes (o :: r) = obj_bytes o ++ body_bytes r.
Proof. reflexivity. Qed.

Lemma place_app : forall pre pos post,
  place pos (pre ++ post) = place pos pre ++ place (pos + len (body_bytes pre)) post.
Proof.
  induction pre as [|o pre IH]; intros pos post.
  - cbn. f_equal. unfold len. cbn. lia.
  - cbn [app place]. f_equal. rewrite IH. f_equal. f_equal.
    rewrite body_bytes_cons, len_app. lia.
Qed.

Lemma skipn_length_app {A} (a b : list A) : skipn (length a) (a ++ b) = b.
Proof. induction a as [|x a IH]; [reflexivity | exact IH]. Qed.

Lemma to_nat_len {A} (a b : list A) : N.to_nat (len a + len b) = length (a ++ b).
Proof. unfold len. rewrite app_length. lia. Qed.

(** every object of the fill has a line in the section whose offset is the byte at which its
    "N G obj" starts in the output — for EVERY base: nothing here looks at how the base ends *)
Theorem filler_xref_covers_lemma : forall base f pre o post,
  ff_objs f = pre ++ o :: post ->
  let off := len base + len (body_bytes pre) in
  In (fst (fst o), CE off (snd (fst o)) true) (flatten (group (entries_of (fxref base f))))
  /\ exists t, skipn (N.to_nat off) (filler_out base f) = obj_bytes o ++ t.
Proof.
  intros base f pre o post E off. split.
  - eapply Permutation_in; [symmetry; apply filler_xref_perm_lemma|].
    unfold entries_of, fchanged. rewrite E, place_app. cbn [place].
    apply in_map_iff. exists (fst (fst o), snd (fst o), off). split; [reflexivity|].
    apply in_or_app. right. left. reflexivity.
  - unfold filler_out. rewrite E, body_bytes_app, body_bytes_cons.
    unfold off. rewrite to_nat_len.
    eexists. rewrite <- !app_assoc. rewrite (app_assoc base (body_bytes pre)).
    rewrite skipn_length_app. reflexivity.
Qed.

Lemma obj_bytes_header o : exists t, obj_bytes o = header_of o ++ t.
Proof.
  destruct o as [[n g] body]. unfold obj_bytes, header_of. cbn [fst snd].
  eexists. rewrite <- !app_assoc. reflexivity.
Qed.

(** the same with only the "N G obj\n" line named *)
Corollary filler_header_at_offset_lemma : forall base f pre o post,
  ff_objs f = pre ++ o :: post ->
  is_prefix (header_of o) (skipn (N.to_nat (len base + len (body_bytes pre))) (filler_out base f)).
Proof.
  intros base f pre o post E. destruct (filler_xref_covers_lemma base f pre o post E) as [_ [t H]].
  destruct (obj_bytes_header o) as [t' H']. unfold is_prefix. rewrite H, H'.
  exists (t' ++ t). rewrite <- app_assoc. reflexivity.
Qed.

(** the no-final-EOL case spelled out: the first object's offset is exactly [len base], the byte
    after the base's last byte (which is then not an end-of-line) *)
Corollary filler_first_offset_no_eol_lemma : forall base f o post,
  ends_eol base = false -> ff_objs f = o :: post ->
  In (fst (fst o), CE (len base) (snd (fst o)) true) (flatten (group (entries_of (fxref base f))))
  /\ is_prefix (header_of o) (skipn (length base) (filler_out base f)).
Proof.
  intros base f o post _ E.
  pose proof (filler_xref_covers_lemma base f [] o post E) as [H1 _].
  pose proof (filler_header_at_offset_lemma base f [] o post E) as H2.
  cbn [body_bytes map concat] in H1, H2. unfold len in H1, H2. cbn [length] in H1, H2.
  rewrite N.add_0_r in H1, H2. rewrite Nnat.Nat2N.id in H2. split; assumption.
Qed.

(** startxref: the number written at the end is the byte at which the appended "xref" keyword starts *)
Theorem filler_startxref_lemma : forall base f,
  let xpos := len base + len (body_bytes (ff_objs f)) in
  (exists t, skipn (N.to_nat xpos) (filler_out base f) = s "xref" ++ nl ++ t) /\
  (exists h, filler_out base f = h ++ s "startxref" ++ nl ++ dec xpos ++ nl ++ s "%%EOF" ++ nl).
Proof.
  intros base f xpos. split.
  - unfold filler_out, xpos. rewrite to_nat_len. rewrite app_assoc, skipn_length_app.
    unfold partial_xref, render_section. eexists. rewrite <- !app_assoc. reflexivity.
  - unfold filler_out, trailer. fold xpos.
    eexists. rewrite !app_assoc. reflexivity.
Qed.

(** ** exactly one line per object (the filler never writes one id twice: [modified] is
    deduplicated by id; stated with the hypothesis) *)
Lemma nodup_key_inj {A B} (k : A -> B) : forall l a b,
  NoDup (map k l) -> In a l -> In b l -> k a = k b -> a = b.
Proof.
  induction l as [|x l IH]; intros a b ND Ia Ib E; [destruct Ia|].
  cbn [map] in ND. inversion ND as [|? ? NI ND']; subst.
  destruct Ia as [<-|Ia], Ib as [<-|Ib].
  - reflexivity.
  - exfalso. apply NI. rewrite E. apply in_map, Ib.
  - exfalso. apply NI. rewrite <- E. apply in_map, Ia.
  - apply (IH a b ND' Ia Ib E).
Qed.

Lemma fchanged_numbers base f : map (fun c : N * N * N => fst (fst c)) (fchanged base f) = fnums f.
Proof. apply place_numbers. Qed.

Theorem filler_xref_unique_lemma : forall base f pre o post c,
  NoDup (fnums f) -> ff_objs f = pre ++ o :: post ->
  In (fst (fst o), c) (flatten (group (entries_of (fxref base f)))) ->
  c = CE (len base + len (body_bytes pre)) (snd (fst o)) true.
Proof.
  intros base f pre o post c ND E I.
  apply (Permutation_in _ (filler_xref_perm_lemma base f)) in I.
  unfold entries_of in I. apply in_map_iff in I. destruct I as [x [Ex Ix]].
  injection Ex as En Ec. subst c.
  assert (Iy : In (fst (fst o), snd (fst o), len base + len (body_bytes pre)) (fchanged base f)).
  { unfold fchanged. rewrite E, place_app. cbn [place]. apply in_or_app. right. left. reflexivity. }
  rewrite <- fchanged_numbers with (base := base) in ND.
  pose proof (nodup_key_inj (fun c : N * N * N => fst (fst c)) _ _ _ ND Ix Iy En) as ->.
  reflexivity.
Qed.

Theorem filler_xref_count_lemma : forall base f,
  length (flatten (group (entries_of (fxref base f)))) = length (ff_objs f).
Proof.
  intros. rewrite (Permutation_length (filler_xref_perm_lemma base f)).
  unfold entries_of, fchanged. rewrite map_length. clear.
  generalize (len base). induction (ff_objs f) as [|o r IH]; intro pos; cbn; [reflexivity|].
  f_equal. apply IH.
Qed.

(** * the fill takes effect (through C04's merge theorem) *)
Lemma rev_of_fsection base f :
  rev_of_section (fsection base f) = map (fun c => (fst (fst c), Direct (snd c))) (fxref base f).
Proof.
  unfold fsection. cbn [rev_of_section]. rewrite group_flatten.
  unfold entries_of. rewrite map_map. apply map_ext. intros [[n g] off]. reflexivity.
Qed.

Theorem filler_reads_latest_lemma : forall secs base f n,
  lookup (file_table (secs ++ [fsection base f])) n =
  match fnew_def base f n with
  | Some d => loc_of (Some d)
  | None => lookup (file_table secs) n
  end.
Proof.
  intros. rewrite !merge_newest_wins_lemma, map_app. cbn [map].
  rewrite spec_lookup_app, rev_of_fsection. unfold fnew_def.
  destruct (rev_find _ n); reflexivity.
Qed.

Theorem filler_untouched_unchanged_lemma : forall secs base f n,
  ~ In n (fnums f) ->
  lookup (file_table (secs ++ [fsection base f])) n = lookup (file_table secs) n.
Proof.
  intros secs base f n H. rewrite filler_reads_latest_lemma.
  unfold fnew_def. rewrite rev_find_none_notin; [reflexivity|].
  rewrite map_map. cbn [fst]. intro I. apply H.
  rewrite <- (fchanged_numbers base f).
  eapply Permutation_in; [|exact I]. apply Permutation_map. apply sort_num_perm.
Qed.

Lemma rev_find_unique : forall (r : revision) n d,
  NoDup (map fst r) -> In (n, d) r -> rev_find r n = Some d.
Proof.
  induction r as [|[k d0] r IH]; intros n d ND I; [destruct I|].
  cbn [map fst] in ND. inversion ND as [|? ? NI ND']; subst.
  cbn [rev_find]. destruct I as [I|I].
  - injection I as -> ->. rewrite rev_find_none_notin by exact NI. rewrite N.eqb_refl. reflexivity.
  - rewrite (IH _ _ ND' I). reflexivity.
Qed.

(** a rewritten object resolves to the exact byte at which its "N G obj" starts *)
Theorem filler_rewritten_reads_exact_lemma : forall secs base f pre o post,
  NoDup (fnums f) -> ff_objs f = pre ++ o :: post ->
  lookup (file_table (secs ++ [fsection base f])) (fst (fst o)) = LOffset (len base + len (body_bytes pre)).
Proof.
  intros secs base f pre o post ND E. rewrite filler_reads_latest_lemma. unfold fnew_def.
  rewrite (rev_find_unique _ (fst (fst o)) (Direct (len base + len (body_bytes pre)))); [reflexivity| |].
  - rewrite map_map. cbn [fst].
    eapply Permutation_NoDup; [apply Permutation_map; symmetry; apply sort_num_perm|].
    rewrite fchanged_numbers. exact ND.
  - apply in_map_iff. exists (fst (fst o), snd (fst o), len base + len (body_bytes pre)).
    split; [reflexivity|].
    eapply Permutation_in; [symmetry; apply sort_num_perm|].
    unfold fchanged. rewrite E, place_app. cbn [place]. apply in_or_app. right. left. reflexivity.
Qed.

(** * histories mixing [IncrementalUpdate::finish] and the form filler *)
Inductive edit := EUpd (u : upd) | EFill (f : ffill).
Definition estep (st : bytes * list section) (e : edit) : bytes * list section :=
  match e with
  | EUpd u => step st u
  | EFill f => (filler_out (fst st) f, snd st ++ [fsection (fst st) f])
  end.
Definition erun (st : bytes * list section) (es : list edit) : bytes * list section := fold_left estep es st.

Lemma estep_prefix st e : is_prefix (fst st) (fst (estep st e)).
Proof. destruct e; cbn [estep step fst]; [apply update_is_append_lemma | apply filler_is_append_lemma]. Qed.

Theorem edits_are_append_lemma : forall es st, is_prefix (fst st) (fst (erun st es)).
Proof.
  induction es as [|e es IH]; intro st; cbn [erun fold_left].
  - apply is_prefix_refl.
  - eapply is_prefix_trans; [apply (estep_prefix st e) | apply (IH (estep st e))].
Qed.

Theorem fill_after_edits_lemma : forall es f base secs n,
  let st := erun (base, secs) es in
  is_prefix base (fst (estep st (EFill f))) /\
  lookup (file_table (snd (estep st (EFill f)))) n =
    match fnew_def (fst st) f n with
    | Some d => loc_of (Some d)
    | None => lookup (file_table (snd st)) n
    end.
Proof.
  intros es f base secs n st. split.
  - eapply is_prefix_trans; [apply (edits_are_append_lemma es (base, secs)) | apply estep_prefix].
  - cbn [estep snd]. apply filler_reads_latest_lemma.
Qed.

(** * a small example by hand (non-vacuity; emission order 7, 4, 5 with a base lacking the final EOL) *)
Definition ex_fill : ffill :=
  {| ff_prev := 9; ff_root := (1, 0); ff_size := 8; ff_id := None;
     ff_objs := [(7, 0, s "B"); (4, 0, s "A"); (5, 0, s "F")] |}.
Example ex_filler_out :
  string_of_bytes (filler_out (s "%%EOF") ex_fill) =
  string_of_bytes (s "%%EOF7 0 obj" ++ nl ++ s "B" ++ nl ++ s "endobj" ++ nl ++
     s "4 0 obj" ++ nl ++ s "A" ++ nl ++ s "endobj" ++ nl ++ s "5 0 obj" ++ nl ++ s "F" ++ nl ++ s "endobj" ++ nl ++
     s "xref" ++ nl ++ s "4 2" ++ nl ++ s "0000000022 00000 n " ++ nl ++ s "0000000039 00000 n " ++ nl ++
     s "7 1" ++ nl ++ s "0000000005 00000 n " ++ nl ++
     s "trailer" ++ nl ++ s "<< /Size 8 /Root 1 0 R /Prev 9 >>" ++ nl ++ s "startxref" ++ nl ++ s "56" ++ nl ++ s "%%EOF" ++ nl).
Proof. vm_compute. reflexivity. Qed.
Example ex_filler_hyps :
  NoDup (fnums ex_fill) /\ ends_eol (s "%%EOF") = false /\
  ff_objs ex_fill = [(7, 0, s "B")] ++ (4, 0, s "A") :: [(5, 0, s "F")] /\
  lookup (file_table ([Classic [(0, [CE 0 65535 false; CE 15 0 true])]] ++ [fsection (s "%%EOF") ex_fill])) 4 = LOffset 22 /\
  lookup (file_table ([Classic [(0, [CE 0 65535 false; CE 15 0 true])]] ++ [fsection (s "%%EOF") ex_fill])) 1 = LOffset 15 /\
  filler_code {| fc_base := s "%%EOF"; fc_fill := ex_fill; fc_out := filler_out (s "%%EOF") ex_fill |} = 0.
Proof.
  split; [|vm_compute; repeat split; reflexivity].
  unfold fnums. cbn. repeat constructor; cbn; intuition discriminate.
Qed.

(** * Validation against the real code: four outputs of [IncrementalFormFiller::fill_many]
    (oxidize-pdf-core at the pinned HEAD), obtained once by a scratch unit test in a private worktree
    (the test built each classic base by hand, ran [fill_many_impl], re-opened the output with the
    library and read the values back, then printed base, output and the appended objects cut out of
    the output in order).  [filler_code = 0] says: the model reproduces the output byte for byte, the
    base is a prefix, every cross-reference line points at its "N G obj".
    real1: final LF, two /Ch fields given in descending id order, no /ID.
    real2: same base WITHOUT final EOL (the first object starts on the %%EOF line).
    real3: /Tx merged field+widget, base ends in CR, /ID present, new appearance stream (id = base /Size).
    real4: /Tx field with a separate widget kid, no final EOL, /ID present. *)
(* real1: fields [("b", "y"), ("a", "x")] *)
Definition real1_base : bytes := unhex "255044462d312e340a312030206f626a0a3c3c202f54797065202f436174616c6f67202f5061676573203220302052202f4163726f466f726d203520302052203e3e0a656e646f626a0a322030206f626a0a3c3c202f54797065202f5061676573202f4b696473205b33203020525d202f436f756e742031203e3e0a656e646f626a0a332030206f626a0a3c3c202f54797065202f50616765202f506172656e74203220302052202f4d65646961426f78205b30203020323030203230305d203e3e0a656e646f626a0a342030206f626a0a3c3c202f4654202f4368202f5420286129202f4f7074205b287829202879295d203e3e0a656e646f626a0a352030206f626a0a3c3c202f4669656c6473205b34203020522037203020525d203e3e0a656e646f626a0a362030206f626a0a3c3c202f4b2031203e3e0a656e646f626a0a372030206f626a0a3c3c202f4654202f4368202f5420286229202f4f7074205b287829202879295d203e3e0a656e646f626a0a787265660a3020380a303030303030303030302036353533352066200a30303030303030303039203030303030206e200a30303030303030303734203030303030206e200a30303030303030313331203030303030206e200a30303030303030323032203030303030206e200a30303030303030323533203030303030206e200a30303030303030323936203030303030206e200a30303030303030333232203030303030206e200a747261696c65720a3c3c202f53697a652038202f526f6f74203120302052203e3e0a7374617274787265660a3337330a2525454f460a".
Definition real1_fill : ffill := {| ff_prev := 373; ff_root := (1, 0); ff_size := 8;
  ff_id := None;
  ff_objs :=
    (7, 0, unhex "3c3c202f4654202f4368202f4f7074205b3c37383e203c37393e5d202f54203c36323e202f56203c37393e203e3e") ::
    (4, 0, unhex "3c3c202f4654202f4368202f4f7074205b3c37383e203c37393e5d202f54203c36313e202f56203c37383e203e3e") ::
    (5, 0, unhex "3c3c202f4669656c6473205b34203020522037203020525d202f4e656564417070656172616e6365732074727565203e3e") ::
    nil |}.
Definition real1_out : bytes := unhex "255044462d312e340a312030206f626a0a3c3c202f54797065202f436174616c6f67202f5061676573203220302052202f4163726f466f726d203520302052203e3e0a656e646f626a0a322030206f626a0a3c3c202f54797065202f5061676573202f4b696473205b33203020525d202f436f756e742031203e3e0a656e646f626a0a332030206f626a0a3c3c202f54797065202f50616765202f506172656e74203220302052202f4d65646961426f78205b30203020323030203230305d203e3e0a656e646f626a0a342030206f626a0a3c3c202f4654202f4368202f5420286129202f4f7074205b287829202879295d203e3e0a656e646f626a0a352030206f626a0a3c3c202f4669656c6473205b34203020522037203020525d203e3e0a656e646f626a0a362030206f626a0a3c3c202f4b2031203e3e0a656e646f626a0a372030206f626a0a3c3c202f4654202f4368202f5420286229202f4f7074205b287829202879295d203e3e0a656e646f626a0a787265660a3020380a303030303030303030302036353533352066200a30303030303030303039203030303030206e200a30303030303030303734203030303030206e200a30303030303030313331203030303030206e200a30303030303030323032203030303030206e200a30303030303030323533203030303030206e200a30303030303030323936203030303030206e200a30303030303030333232203030303030206e200a747261696c65720a3c3c202f53697a652038202f526f6f74203120302052203e3e0a7374617274787265660a3337330a2525454f460a372030206f626a0a3c3c202f4654202f4368202f4f7074205b3c37383e203c37393e5d202f54203c36323e202f56203c37393e203e3e0a656e646f626a0a342030206f626a0a3c3c202f4654202f4368202f4f7074205b3c37383e203c37393e5d202f54203c36313e202f56203c37383e203e3e0a656e646f626a0a352030206f626a0a3c3c202f4669656c6473205b34203020522037203020525d202f4e656564417070656172616e6365732074727565203e3e0a656e646f626a0a787265660a3420320a30303030303030363538203030303030206e200a30303030303030373230203030303030206e200a3720310a30303030303030353936203030303030206e200a747261696c65720a3c3c202f53697a652038202f526f6f74203120302052202f5072657620333733203e3e0a7374617274787265660a3738350a2525454f460a".
(* tail as text:
7 0 obj
<< /FT /Ch /Opt [<78> <79>] /T <62> /V <79> >>
endobj
4 0 obj
<< /FT /Ch /Opt [<78> <79>] /T <61> /V <78> >>
endobj
5 0 obj
<< /Fields [4 0 R 7 0 R] /NeedAppearances true >>
endobj
xref
4 2
0000000658 00000 n 
0000000720 00000 n 
7 1
0000000596 00000 n 
trailer
<< /Size 8 /Root 1 0 R /Prev 373 >>
startxref
785
%%EOF
*)
(* real2: fields [("a", "y")] *)
Definition real2_base : bytes := unhex "255044462d312e340a312030206f626a0a3c3c202f54797065202f436174616c6f67202f5061676573203220302052202f4163726f466f726d203520302052203e3e0a656e646f626a0a322030206f626a0a3c3c202f54797065202f5061676573202f4b696473205b33203020525d202f436f756e742031203e3e0a656e646f626a0a332030206f626a0a3c3c202f54797065202f50616765202f506172656e74203220302052202f4d65646961426f78205b30203020323030203230305d203e3e0a656e646f626a0a342030206f626a0a3c3c202f4654202f4368202f5420286129202f4f7074205b287829202879295d203e3e0a656e646f626a0a352030206f626a0a3c3c202f4669656c6473205b34203020522037203020525d203e3e0a656e646f626a0a362030206f626a0a3c3c202f4b2031203e3e0a656e646f626a0a372030206f626a0a3c3c202f4654202f4368202f5420286229202f4f7074205b287829202879295d203e3e0a656e646f626a0a787265660a3020380a303030303030303030302036353533352066200a30303030303030303039203030303030206e200a30303030303030303734203030303030206e200a30303030303030313331203030303030206e200a30303030303030323032203030303030206e200a30303030303030323533203030303030206e200a30303030303030323936203030303030206e200a30303030303030333232203030303030206e200a747261696c65720a3c3c202f53697a652038202f526f6f74203120302052203e3e0a7374617274787265660a3337330a2525454f46".
Definition real2_fill : ffill := {| ff_prev := 373; ff_root := (1, 0); ff_size := 8;
  ff_id := None;
  ff_objs :=
    (4, 0, unhex "3c3c202f4654202f4368202f4f7074205b3c37383e203c37393e5d202f54203c36313e202f56203c37393e203e3e") ::
    (5, 0, unhex "3c3c202f4669656c6473205b34203020522037203020525d202f4e656564417070656172616e6365732074727565203e3e") ::
    nil |}.
Definition real2_out : bytes := unhex "255044462d312e340a312030206f626a0a3c3c202f54797065202f436174616c6f67202f5061676573203220302052202f4163726f466f726d203520302052203e3e0a656e646f626a0a322030206f626a0a3c3c202f54797065202f5061676573202f4b696473205b33203020525d202f436f756e742031203e3e0a656e646f626a0a332030206f626a0a3c3c202f54797065202f50616765202f506172656e74203220302052202f4d65646961426f78205b30203020323030203230305d203e3e0a656e646f626a0a342030206f626a0a3c3c202f4654202f4368202f5420286129202f4f7074205b287829202879295d203e3e0a656e646f626a0a352030206f626a0a3c3c202f4669656c6473205b34203020522037203020525d203e3e0a656e646f626a0a362030206f626a0a3c3c202f4b2031203e3e0a656e646f626a0a372030206f626a0a3c3c202f4654202f4368202f5420286229202f4f7074205b287829202879295d203e3e0a656e646f626a0a787265660a3020380a303030303030303030302036353533352066200a30303030303030303039203030303030206e200a30303030303030303734203030303030206e200a30303030303030313331203030303030206e200a30303030303030323032203030303030206e200a30303030303030323533203030303030206e200a30303030303030323936203030303030206e200a30303030303030333232203030303030206e200a747261696c65720a3c3c202f53697a652038202f526f6f74203120302052203e3e0a7374617274787265660a3337330a2525454f46342030206f626a0a3c3c202f4654202f4368202f4f7074205b3c37383e203c37393e5d202f54203c36313e202f56203c37393e203e3e0a656e646f626a0a352030206f626a0a3c3c202f4669656c6473205b34203020522037203020525d202f4e656564417070656172616e6365732074727565203e3e0a656e646f626a0a787265660a3420320a30303030303030353935203030303030206e200a30303030303030363537203030303030206e200a747261696c65720a3c3c202f53697a652038202f526f6f74203120302052202f5072657620333733203e3e0a7374617274787265660a3732320a2525454f460a".
(* tail as text:
4 0 obj
<< /FT /Ch /Opt [<78> <79>] /T <61> /V <79> >>
endobj
5 0 obj
<< /Fields [4 0 R 7 0 R] /NeedAppearances true >>
endobj
xref
4 2
0000000595 00000 n 
0000000657 00000 n 
trailer
<< /Size 8 /Root 1 0 R /Prev 373 >>
startxref
722
%%EOF
*)
(* real3: fields [("t", "Hi")] *)
Definition real3_base : bytes := unhex "255044462d312e340a312030206f626a0a3c3c202f54797065202f436174616c6f67202f5061676573203220302052202f4163726f466f726d203420302052203e3e0a656e646f626a0a322030206f626a0a3c3c202f54797065202f5061676573202f4b696473205b33203020525d202f436f756e742031203e3e0a656e646f626a0a332030206f626a0a3c3c202f54797065202f50616765202f506172656e74203220302052202f4d65646961426f78205b30203020323030203230305d202f416e6e6f7473205b35203020525d203e3e0a656e646f626a0a342030206f626a0a3c3c202f4669656c6473205b35203020525d202f444120282f48656c7620313020546629203e3e0a656e646f626a0a352030206f626a0a3c3c202f4654202f5478202f5420287429202f53756274797065202f576964676574202f52656374205b3130203130203131302033305d203e3e0a656e646f626a0a787265660a3020360a303030303030303030302036353533352066200a30303030303030303039203030303030206e200a30303030303030303734203030303030206e200a30303030303030313331203030303030206e200a30303030303030323138203030303030206e200a30303030303030323733203030303030206e200a747261696c65720a3c3c202f53697a652036202f526f6f74203120302052202f4944205b3c30313032616266663e203c30393039303930393e5d203e3e0a7374617274787265660a3334370a2525454f460d".
Definition real3_fill : ffill := {| ff_prev := 347; ff_root := (1, 0); ff_size := 7;
  ff_id := Some (unhex "0102abff", unhex "cfb3527a66d0d513a6a44eeae02e3804");
  ff_objs :=
    (5, 0, unhex "3c3c202f4150203c3c202f4e203620302052203e3e202f4654202f5478202f52656374205b3130203130203131302033305d202f53756274797065202f576964676574202f54203c37343e202f56203c343836393e203e3e") ::
    (4, 0, unhex "3c3c202f4441203c324634383635364337363230333133303230353436363e202f4669656c6473205b35203020525d202f4e656564417070656172616e6365732074727565203e3e") ::
    (6, 0, unhex "3c3c202f54797065202f584f626a656374202f53756274797065202f466f726d202f42426f78205b302030203130302032305d202f5265736f7572636573203c3c202f466f6e74203c3c202f48656c76203c3c202f42617365466f6e74202f48656c766574696361202f53756274797065202f5479706531202f54797065202f466f6e74203e3e203e3e203e3e202f4c656e677468203430203e3e0a73747265616d0a710a42540a2f48656c762031302054660a3020670a3220382054640a2848692920546a0a45540a510a656e6473747265616d") ::
    nil |}.
Definition real3_out : bytes := unhex "255044462d312e340a312030206f626a0a3c3c202f54797065202f436174616c6f67202f5061676573203220302052202f4163726f466f726d203420302052203e3e0a656e646f626a0a322030206f626a0a3c3c202f54797065202f5061676573202f4b696473205b33203020525d202f436f756e742031203e3e0a656e646f626a0a332030206f626a0a3c3c202f54797065202f50616765202f506172656e74203220302052202f4d65646961426f78205b30203020323030203230305d202f416e6e6f7473205b35203020525d203e3e0a656e646f626a0a342030206f626a0a3c3c202f4669656c6473205b35203020525d202f444120282f48656c7620313020546629203e3e0a656e646f626a0a352030206f626a0a3c3c202f4654202f5478202f5420287429202f53756274797065202f576964676574202f52656374205b3130203130203131302033305d203e3e0a656e646f626a0a787265660a3020360a303030303030303030302036353533352066200a30303030303030303039203030303030206e200a30303030303030303734203030303030206e200a30303030303030313331203030303030206e200a30303030303030323138203030303030206e200a30303030303030323733203030303030206e200a747261696c65720a3c3c202f53697a652036202f526f6f74203120302052202f4944205b3c30313032616266663e203c30393039303930393e5d203e3e0a7374617274787265660a3334370a2525454f460d352030206f626a0a3c3c202f4150203c3c202f4e203620302052203e3e202f4654202f5478202f52656374205b3130203130203131302033305d202f53756274797065202f576964676574202f54203c37343e202f56203c343836393e203e3e0a656e646f626a0a342030206f626a0a3c3c202f4441203c324634383635364337363230333133303230353436363e202f4669656c6473205b35203020525d202f4e656564417070656172616e6365732074727565203e3e0a656e646f626a0a362030206f626a0a3c3c202f54797065202f584f626a656374202f53756274797065202f466f726d202f42426f78205b302030203130302032305d202f5265736f7572636573203c3c202f466f6e74203c3c202f48656c76203c3c202f42617365466f6e74202f48656c766574696361202f53756274797065202f5479706531202f54797065202f466f6e74203e3e203e3e203e3e202f4c656e677468203430203e3e0a73747265616d0a710a42540a2f48656c762031302054660a3020670a3220382054640a2848692920546a0a45540a510a656e6473747265616d0a656e646f626a0a787265660a3420330a30303030303030363632203030303030206e200a30303030303030353538203030303030206e200a30303030303030373530203030303030206e200a747261696c65720a3c3c202f53697a652037202f526f6f74203120302052202f5072657620333437202f4944205b3c30313032414246463e203c43464233353237413636443044353133413641343445454145303245333830343e5d203e3e0a7374617274787265660a3937390a2525454f460a".
(* tail as text:
5 0 obj
<< /AP << /N 6 0 R >> /FT /Tx /Rect [10 10 110 30] /Subtype /Widget /T <74> /V <4869> >>
endobj
4 0 obj
<< /DA <2F48656C76203130205466> /Fields [5 0 R] /NeedAppearances true >>
endobj
6 0 obj
<< /Type /XObject /Subtype /Form /BBox [0 0 100 20] /Resources << /Font << /Helv << /BaseFont /Helvetica /Subtype /Type1 /Type /Font >> >> >> /Length 40 >>
stream
q
BT
/Helv 10 Tf
0 g
2 8 Td
(Hi) Tj
ET
Q
endstream
endobj
xref
4 3
0000000662 00000 n 
0000000558 00000 n 
0000000750 00000 n 
trailer
<< /Size 7 /Root 1 0 R /Prev 347 /ID [<0102ABFF> <CFB3527A66D0D513A6A44EEAE02E3804>] >>
startxref
979
%%EOF
*)
(* real4: fields [("t", "Z")] *)
Definition real4_base : bytes := unhex "255044462d312e340a312030206f626a0a3c3c202f54797065202f436174616c6f67202f5061676573203220302052202f4163726f466f726d203420302052203e3e0a656e646f626a0a322030206f626a0a3c3c202f54797065202f5061676573202f4b696473205b33203020525d202f436f756e742031203e3e0a656e646f626a0a332030206f626a0a3c3c202f54797065202f50616765202f506172656e74203220302052202f4d65646961426f78205b30203020323030203230305d202f416e6e6f7473205b37203020525d203e3e0a656e646f626a0a342030206f626a0a3c3c202f4669656c6473205b36203020525d203e3e0a656e646f626a0a352030206f626a0a3c3c202f4b2031203e3e0a656e646f626a0a362030206f626a0a3c3c202f4654202f5478202f5420287429202f4b696473205b37203020525d203e3e0a656e646f626a0a372030206f626a0a3c3c202f53756274797065202f576964676574202f506172656e74203620302052202f52656374205b3130203130203131302033305d203e3e0a656e646f626a0a787265660a3020380a303030303030303030302036353533352066200a30303030303030303039203030303030206e200a30303030303030303734203030303030206e200a30303030303030313331203030303030206e200a30303030303030323138203030303030206e200a30303030303030323535203030303030206e200a30303030303030323831203030303030206e200a30303030303030333331203030303030206e200a747261696c65720a3c3c202f53697a652038202f526f6f74203120302052202f4944205b3c30313032616266663e203c30393039303930393e5d203e3e0a7374617274787265660a3430340a2525454f46".
Definition real4_fill : ffill := {| ff_prev := 404; ff_root := (1, 0); ff_size := 9;
  ff_id := Some (unhex "0102abff", unhex "e49143a7958840c0132fc98086f8543a");
  ff_objs :=
    (6, 0, unhex "3c3c202f4654202f5478202f4b696473205b37203020525d202f54203c37343e202f56203c35413e203e3e") ::
    (7, 0, unhex "3c3c202f4150203c3c202f4e203820302052203e3e202f506172656e74203620302052202f52656374205b3130203130203131302033305d202f53756274797065202f576964676574203e3e") ::
    (4, 0, unhex "3c3c202f4669656c6473205b36203020525d202f4e656564417070656172616e6365732074727565203e3e") ::
    (8, 0, unhex "3c3c202f54797065202f584f626a656374202f53756274797065202f466f726d202f42426f78205b302030203130302032305d202f5265736f7572636573203c3c202f466f6e74203c3c202f48656c76203c3c202f42617365466f6e74202f48656c766574696361202f53756274797065202f5479706531202f54797065202f466f6e74203e3e203e3e203e3e202f4c656e677468203431203e3e0a73747265616d0a710a42540a2f48656c762031322054660a3020670a3220372e362054640a285a2920546a0a45540a510a656e6473747265616d") ::
    nil |}.
Definition real4_out : bytes := unhex "255044462d312e340a312030206f626a0a3c3c202f54797065202f436174616c6f67202f5061676573203220302052202f4163726f466f726d203420302052203e3e0a656e646f626a0a322030206f626a0a3c3c202f54797065202f5061676573202f4b696473205b33203020525d202f436f756e742031203e3e0a656e646f626a0a332030206f626a0a3c3c202f54797065202f50616765202f506172656e74203220302052202f4d65646961426f78205b30203020323030203230305d202f416e6e6f7473205b37203020525d203e3e0a656e646f626a0a342030206f626a0a3c3c202f4669656c6473205b36203020525d203e3e0a656e646f626a0a352030206f626a0a3c3c202f4b2031203e3e0a656e646f626a0a362030206f626a0a3c3c202f4654202f5478202f5420287429202f4b696473205b37203020525d203e3e0a656e646f626a0a372030206f626a0a3c3c202f53756274797065202f576964676574202f506172656e74203620302052202f52656374205b3130203130203131302033305d203e3e0a656e646f626a0a787265660a3020380a303030303030303030302036353533352066200a30303030303030303039203030303030206e200a30303030303030303734203030303030206e200a30303030303030313331203030303030206e200a30303030303030323138203030303030206e200a30303030303030323535203030303030206e200a30303030303030323831203030303030206e200a30303030303030333331203030303030206e200a747261696c65720a3c3c202f53697a652038202f526f6f74203120302052202f4944205b3c30313032616266663e203c30393039303930393e5d203e3e0a7374617274787265660a3430340a2525454f46362030206f626a0a3c3c202f4654202f5478202f4b696473205b37203020525d202f54203c37343e202f56203c35413e203e3e0a656e646f626a0a372030206f626a0a3c3c202f4150203c3c202f4e203820302052203e3e202f506172656e74203620302052202f52656374205b3130203130203131302033305d202f53756274797065202f576964676574203e3e0a656e646f626a0a342030206f626a0a3c3c202f4669656c6473205b36203020525d202f4e656564417070656172616e6365732074727565203e3e0a656e646f626a0a382030206f626a0a3c3c202f54797065202f584f626a656374202f53756274797065202f466f726d202f42426f78205b302030203130302032305d202f5265736f7572636573203c3c202f466f6e74203c3c202f48656c76203c3c202f42617365466f6e74202f48656c766574696361202f53756274797065202f5479706531202f54797065202f466f6e74203e3e203e3e203e3e202f4c656e677468203431203e3e0a73747265616d0a710a42540a2f48656c762031322054660a3020670a3220372e362054640a285a2920546a0a45540a510a656e6473747265616d0a656e646f626a0a787265660a3420310a30303030303030383035203030303030206e200a3620330a30303030303030363534203030303030206e200a30303030303030373133203030303030206e200a30303030303030383634203030303030206e200a747261696c65720a3c3c202f53697a652039202f526f6f74203120302052202f5072657620343034202f4944205b3c30313032414246463e203c45343931343341373935383834304330313332464339383038364638353433413e5d203e3e0a7374617274787265660a313039340a2525454f460a".
(* tail as text:
6 0 obj
<< /FT /Tx /Kids [7 0 R] /T <74> /V <5A> >>
endobj
7 0 obj
<< /AP << /N 8 0 R >> /Parent 6 0 R /Rect [10 10 110 30] /Subtype /Widget >>
endobj
4 0 obj
<< /Fields [6 0 R] /NeedAppearances true >>
endobj
8 0 obj
<< /Type /XObject /Subtype /Form /BBox [0 0 100 20] /Resources << /Font << /Helv << /BaseFont /Helvetica /Subtype /Type1 /Type /Font >> >> >> /Length 41 >>
stream
q
BT
/Helv 12 Tf
0 g
2 7.6 Td
(Z) Tj
ET
Q
endstream
endobj
xref
4 1
0000000805 00000 n 
6 3
0000000654 00000 n 
0000000713 00000 n 
0000000864 00000 n 
trailer
<< /Size 9 /Root 1 0 R /Prev 404 /ID [<0102ABFF> <E49143A7958840C0132FC98086F8543A>] >>
startxref
1094
%%EOF
*)

Example real1_ok : filler_code {| fc_base := real1_base; fc_fill := real1_fill; fc_out := real1_out |} = 0
  /\ ends_eol real1_base = true /\ fnums real1_fill = [7; 4; 5].
Proof. vm_compute. repeat split; reflexivity. Qed.
Example real2_ok : filler_code {| fc_base := real2_base; fc_fill := real2_fill; fc_out := real2_out |} = 0
  /\ ends_eol real2_base = false
  /\ flatten (group (entries_of (fxref real2_base real2_fill))) = [(4, CE (len real2_base) 0 true); (5, CE 657 0 true)].
Proof. vm_compute. repeat split; reflexivity. Qed.
Example real3_ok : filler_code {| fc_base := real3_base; fc_fill := real3_fill; fc_out := real3_out |} = 0
  /\ ends_eol real3_base = true /\ fnums real3_fill = [5; 4; 6]
  /\ group (entries_of (fxref real3_base real3_fill)) = [(4, [CE 662 0 true; CE 558 0 true; CE 750 0 true])].
Proof. vm_compute. repeat split; reflexivity. Qed.
Example real4_ok : filler_code {| fc_base := real4_base; fc_fill := real4_fill; fc_out := real4_out |} = 0
  /\ ends_eol real4_base = false /\ fnums real4_fill = [6; 7; 4; 8]
  /\ lookup (file_table ([Classic [(0, [CE 0 65535 false; CE 9 0 true; CE 74 0 true; CE 131 0 true; CE 218 0 true;
                                          CE 255 0 true; CE 281 0 true; CE 331 0 true])]] ++ [fsection real4_base real4_fill])) 6
      = LOffset (len real4_base)
  /\ lookup (file_table ([Classic [(0, [CE 0 65535 false; CE 9 0 true; CE 74 0 true; CE 131 0 true; CE 218 0 true;
                                          CE 255 0 true; CE 281 0 true; CE 331 0 true])]] ++ [fsection real4_base real4_fill])) 5
      = LOffset 255.
Proof. vm_compute. repeat split; reflexivity. Qed.
