(** C17 — proofs *)
From OxVerif Require Import Base.Util C04.Model C04.Proofs C17.Model.
From Coq Require Import Permutation.

(** * append-only *)
Lemma update_is_append_lemma : forall base u, is_prefix base (finish base u).
Proof.
  intros base u. unfold finish, start_of, is_prefix.
  eexists. rewrite <- !app_assoc. reflexivity.
Qed.

Lemma is_prefix_trans a b c : is_prefix a b -> is_prefix b c -> is_prefix a c.
Proof. intros [t ->] [t' ->]. exists (t ++ t'). rewrite app_assoc. reflexivity. Qed.

Lemma is_prefix_refl a : is_prefix a a.
Proof. exists []. rewrite app_nil_r. reflexivity. Qed.

Lemma is_prefixb_sound a : forall b, is_prefixb a b = true -> is_prefix a b.
Proof.
  induction a as [|x a IH]; intros b H.
  - exists b. reflexivity.
  - destruct b as [|y b]; [discriminate|]. cbn in H.
    apply andb_true_iff in H. destruct H as [E H]. apply N.eqb_eq in E. subst y.
    destruct (IH b H) as [t ->]. exists t. reflexivity.
Qed.

(** * the partial cross-reference section *)
Lemma number_cons {A} n (a : A) l : number n (a :: l) = (n, a) :: number (N.succ n) l.
Proof. reflexivity. Qed.

Lemma group_flatten {A} : forall l : list (N * A), flatten (group l) = l.
Proof.
  induction l as [|[n a] r IH]; [reflexivity|].
  cbn [group]. destruct (group r) as [|[m es] gs] eqn:G.
  - cbn in IH. subst r. reflexivity.
  - destruct (m =? N.succ n) eqn:E.
    + apply N.eqb_eq in E. subst m.
      unfold flatten in *. cbn [map concat fst snd] in *. rewrite number_cons.
      cbn [app]. f_equal. exact IH.
    + unfold flatten in *. cbn [map concat fst snd number app] in *. f_equal. exact IH.
Qed.

Lemma pad_length w l : length (pad w l) = Nat.max w (length l).
Proof. unfold pad. rewrite app_length, repeat_length. lia. Qed.

Fixpoint pow10 (k : nat) : N := match k with O => 1 | S k' => 10 * pow10 k' end.

Lemma dec_aux_length : forall fuel n acc k,
  n < pow10 (S k) -> (length (dec_aux fuel n acc) <= length acc + S k)%nat.
Proof.
  induction fuel as [|f IH]; intros n acc k H; cbn [dec_aux]; [lia|].
  destruct (n / 10 =? 0) eqn:E; [cbn; lia|].
  apply N.eqb_neq in E.
  destruct k as [|k'].
  - cbn in H. exfalso. apply E. apply N.div_small. lia.
  - assert (H' : n / 10 < pow10 (S k')).
    { apply N.div_lt_upper_bound; [lia|]. exact H. }
    specialize (IH (n / 10) ((48 + n mod 10) :: acc) k' H'). cbn [length] in IH. lia.
Qed.

Lemma dec_length n k : n < pow10 (S k) -> (length (dec n) <= S k)%nat.
Proof. intro H. unfold dec. pose proof (dec_aux_length 40 n [] k H). cbn in *. lia. Qed.

(** every entry line is exactly 20 bytes (offset below 10^10, generation below 10^5) *)
Lemma render_entry_20 off g u :
  off < 10000000000 -> g < 100000 -> length (render_entry (CE off g u)) = 20%nat.
Proof.
  intros Ho Hg. unfold render_entry, sp, nl.
  rewrite !app_length, !pad_length.
  pose proof (dec_length off 9 Ho). pose proof (dec_length g 4 Hg).
  destruct u; cbn [length]; lia.
Qed.

(** * sorting *)
Lemma insert_sorted_perm x l : Permutation (insert_sorted x l) (x :: l).
Proof.
  induction l as [|y r IH]; cbn; [reflexivity|].
  destruct (key_le x y); [reflexivity|].
  rewrite IH. apply perm_swap.
Qed.
Lemma sort_perm l : Permutation (sort l) l.
Proof.
  induction l as [|x r IH]; cbn; [reflexivity|].
  rewrite insert_sorted_perm. constructor. exact IH.
Qed.

Lemma place_numbers : forall objs pos,
  map (fun c => fst (fst c)) (place pos objs) = map (fun o : robj => fst (fst o)) objs.
Proof. induction objs as [|o r IH]; intros pos; cbn; [reflexivity|]. f_equal. apply IH. Qed.

(** * the update takes effect *)
Lemma spec_lookup_app h r n :
  spec_lookup (h ++ [r]) n =
  match rev_find r n with Some d => Some d | None => spec_lookup h n end.
Proof.
  induction h as [|r0 h IH]; cbn [app spec_lookup].
  - destruct (rev_find r n); reflexivity.
  - rewrite IH. destruct (rev_find r n); [reflexivity|].
    destruct (spec_lookup h n); reflexivity.
Qed.

Lemma rev_of_section_of base u :
  rev_of_section (section_of base u) = map (fun c => (fst (fst c), Direct (snd c))) (changed base u).
Proof.
  unfold section_of. cbn [rev_of_section]. rewrite group_flatten.
  unfold entries_of. rewrite map_map. apply map_ext. intros [[n g] off]. reflexivity.
Qed.

Theorem update_reads_latest_lemma : forall secs base u n,
  lookup (file_table (secs ++ [section_of base u])) n =
  match new_def base u n with
  | Some d => loc_of (Some d)
  | None => lookup (file_table secs) n
  end.
Proof.
  intros. rewrite !merge_newest_wins_lemma, map_app. cbn [map].
  rewrite spec_lookup_app, rev_of_section_of. unfold new_def.
  destruct (rev_find _ n); reflexivity.
Qed.

Lemma rev_find_none_notin : forall (r : revision) n,
  ~ In n (map fst r) -> rev_find r n = None.
Proof.
  induction r as [|[k d] r IH]; intros n H; cbn; [reflexivity|].
  cbn in H. rewrite IH by tauto.
  destruct (k =? n) eqn:E; [|reflexivity]. apply N.eqb_eq in E. subst. tauto.
Qed.

Lemma rev_find_some_in : forall (r : revision) n,
  In n (map fst r) -> exists d, rev_find r n = Some d.
Proof.
  induction r as [|[k d] r IH]; intros n H; cbn in *; [contradiction|].
  destruct (rev_find r n) as [d'|] eqn:E; [eauto|].
  destruct H as [->|H]; [rewrite N.eqb_refl; eauto|].
  destruct (IH n H) as [d' E']. congruence.
Qed.

(** objects the update does not rewrite are found exactly where they were *)
Theorem untouched_unchanged_lemma : forall secs base u n,
  ~ In n (map (fun o : robj => fst (fst o)) (u_objs u)) ->
  lookup (file_table (secs ++ [section_of base u])) n = lookup (file_table secs) n.
Proof.
  intros secs base u n H. rewrite update_reads_latest_lemma.
  unfold new_def. rewrite rev_find_none_notin; [reflexivity|].
  rewrite map_map. cbn [fst]. unfold changed. rewrite place_numbers.
  intro I. apply H. eapply Permutation_in; [|exact I].
  apply Permutation_map. apply sort_perm.
Qed.

(** rewritten objects resolve to an offset inside the appended part *)
Lemma place_offsets_ge : forall objs pos c, In c (place pos objs) -> pos <= snd c.
Proof.
  induction objs as [|o r IH]; intros pos c H; cbn in H; [contradiction|].
  destruct H as [<-|H]; [cbn; lia|].
  specialize (IH _ _ H). lia.
Qed.

Lemma rev_find_in : forall (r : revision) n d, rev_find r n = Some d -> In (n, d) r.
Proof.
  induction r as [|[k d0] r IH]; intros n d H; cbn in H; [discriminate|].
  destruct (rev_find r n) eqn:E.
  - injection H as <-. right. apply IH. exact E.
  - destruct (k =? n) eqn:K; [|discriminate]. apply N.eqb_eq in K. subst.
    injection H as <-. left. reflexivity.
Qed.

Theorem rewritten_reads_new_lemma : forall secs base u n,
  In n (map (fun o : robj => fst (fst o)) (u_objs u)) ->
  exists off, lookup (file_table (secs ++ [section_of base u])) n = LOffset off
              /\ len base <= off.
Proof.
  intros secs base u n H. rewrite update_reads_latest_lemma. unfold new_def.
  assert (I : In n (map fst (map (fun c : N * N * N => (fst (fst c), Direct (snd c))) (changed base u)))).
  { rewrite map_map. cbn [fst]. unfold changed. rewrite place_numbers.
    eapply Permutation_in; [|exact H]. apply Permutation_map. symmetry. apply sort_perm. }
  destruct (rev_find_some_in _ _ I) as [d E]. rewrite E.
  apply rev_find_in in E. apply in_map_iff in E. destruct E as [c [Ec Ic]].
  injection Ec as _ <-. exists (snd c). split; [reflexivity|].
  apply place_offsets_ge in Ic. unfold start_of, len in *. rewrite app_length in Ic. lia.
Qed.

(** * histories of edits *)
Lemma run_snoc st us u : run st (us ++ [u]) = step (run st us) u.
Proof. unfold run. rewrite fold_left_app. reflexivity. Qed.

Lemma run_prefix : forall us st, is_prefix (fst st) (fst (run st us)).
Proof.
  induction us as [|u us IH]; intros st; cbn [run fold_left].
  - apply is_prefix_refl.
  - eapply is_prefix_trans; [|apply (IH (step st u))].
    cbn [step fst]. apply update_is_append_lemma.
Qed.

Theorem updates_compose_lemma : forall us u base secs n,
  let st := run (base, secs) us in
  is_prefix base (fst (step st u)) /\
  lookup (file_table (snd (step st u))) n =
    match new_def (fst st) u n with
    | Some d => loc_of (Some d)
    | None => lookup (file_table (snd st)) n
    end.
Proof.
  intros us u base secs n st. split.
  - eapply is_prefix_trans; [apply (run_prefix us (base, secs))|].
    cbn [step fst]. apply update_is_append_lemma.
  - cbn [step snd]. apply update_reads_latest_lemma.
Qed.

(** * examples (non-vacuity) *)
Definition ex_upd : upd :=
  {| u_prev := 9; u_root := (1, 0); u_orig_size := 6; u_next_id := 8; u_id := None;
     u_objs := [(7, 0, s "71"); (3, 0, s "33"); (4, 0, s "44")] |}.
Example ex_finish :
  string_of_bytes (finish (s "%PDF") ex_upd) =
  string_of_bytes (s "%PDF" ++ nl ++ s "3 0 obj" ++ nl ++ s "33" ++ nl ++ s "endobj" ++ nl ++
     s "4 0 obj" ++ nl ++ s "44" ++ nl ++ s "endobj" ++ nl ++ s "7 0 obj" ++ nl ++ s "71" ++ nl ++ s "endobj" ++ nl ++
     s "xref" ++ nl ++ s "3 2" ++ nl ++ s "0000000005 00000 n " ++ nl ++ s "0000000023 00000 n " ++ nl ++
     s "7 1" ++ nl ++ s "0000000041 00000 n " ++ nl ++
     s "trailer" ++ nl ++ s "<< /Size 8 /Root 1 0 R /Prev 9 >>" ++ nl ++ s "startxref" ++ nl ++ s "59" ++ nl ++ s "%%EOF" ++ nl).
Proof. vm_compute. reflexivity. Qed.
Example ex_reads :
  lookup (file_table ([Classic [(0, [CE 0 65535 false; CE 15 0 true; CE 30 0 true; CE 40 0 true])]] ++ [section_of (s "%PDF") ex_upd])) 3 = LOffset 5 /\
  lookup (file_table ([Classic [(0, [CE 0 65535 false; CE 15 0 true; CE 30 0 true; CE 40 0 true])]] ++ [section_of (s "%PDF") ex_upd])) 2 = LOffset 30 /\
  In 3 (map (fun o : robj => fst (fst o)) (u_objs ex_upd)) /\ ~ In 2 (map (fun o : robj => fst (fst o)) (u_objs ex_upd)).
Proof. vm_compute. repeat split; auto. intros [H|[H|[H|[]]]]; discriminate. Qed.
Example ex_entry_20 : length (render_entry (CE 1234567 3 true)) = 20%nat /\ 1234567 < 10000000000 /\ 3 < 100000.
Proof. vm_compute. repeat split. Qed.
