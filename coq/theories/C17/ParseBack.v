(** C17 x C09 — the bytes at the offset the appended cross-reference section records parse back.

    C17 (Model.v [finish], Filler.v [filler_out]) takes the serialised body of every replacement
    object as an input.  C09 (IncrFull.v) proves the nested round trip of the INCREMENTAL writer's
    object serialiser [ser_incr].  This file composes the two: when the body of a replacement object
    is [ser_incr v] with [wf_incr v], then
      - the appended section has a line (n, offset, g) for it,
      - the output from that offset on is  "N G obj\n" ++ ser_incr v ++ "\nendobj\n" ++ ...,
      - C09's reader (lexer [lex_all] + parser [parse_tok], Model.v of C09, unchanged) run on what
        follows the header returns the value [norm v] and leaves the keyword [endobj] as the next
        token — which is what an indirect-object reader checks after the value.
    Nothing of either model is restated.  [read_value] below is C09's [parse] that also hands back
    the unread tokens; [parse_is_read_value] proves [parse] = first component of [read_value]. *)
From OxVerif Require Import Base.Util C09.Model C09.Tokens C09.FracSweep C09.Proofs C09.Reals C09.Full C09.IncrFull.
From OxVerif Require Import C04.Model C04.Proofs C17.Model C17.Proofs C17.Filler.
From Coq Require Import Permutation.
Require Import Lia ZifyBool.

(** * Part 1 (C09 only): a value followed by "\nendobj\n" *)

(** C09's [parse] (PdfObject::parse over the on-demand token sequence), keeping the unread tokens *)
Definition read_value (bs : bytes) : option (pobj * list token) :=
  let ts := lex_all (S (length bs)) bs in
  parse_toks (4 * length ts + 4) ts.

Lemma parse_is_read_value : forall bs, parse bs = option_map fst (read_value bs).
Proof.
  intro bs. unfold parse, read_value. cbv zeta.
  destruct (lex_all (S (length bs)) bs) as [|t r]; [reflexivity|].
  cbn [next parse_toks].
  replace (4 * length (t :: r) + 4)%nat with (S (4 * length (t :: r) + 3)) by lia.
  destruct t; try reflexivity;
    match goal with |- context [parse_tok ?f ?t ?r] => destruct (parse_tok f t r) as [[o x]|]; reflexivity end.
Qed.

(** what the writers put after a body: LF "endobj" LF *)
Definition endobj_tail (rest : bytes) : bytes := 10 :: w_endobj ++ 10 :: rest.

Lemma lex1_endobj_tail : forall rest, lex1 (endobj_tail rest) = (TKw w_endobj, 10 :: rest).
Proof. intro rest. reflexivity. Qed.

Lemma good_rest_endobj_tail : forall rest, good_rest (endobj_tail rest).
Proof. intro. apply good_rest_lf. Qed.

(** Layer 2 of C09 when the value is followed by a keyword other than [stream].  Full.v's
    [parse_toks_ser_gen] asks for a "quiet" next token (no keyword) because it is used inside
    containers; at the top level the look-ahead of an integer or of a dictionary sees the keyword and
    pushes it back unchanged.  Only the outermost constructor meets the keyword, so Full.v's lemmas
    for elements and entries are used as they are. *)
Lemma parse_toks_then_kw : forall v, wf v = true -> forall w rest fuel,
  bytes_eqb w w_stream = false -> (2 * length (toks v) <= fuel)%nat ->
  parse_toks fuel (toks v ++ TKw w :: rest) = Some (norm v, TKw w :: rest).
Proof.
  intros v W w rest fuel Hw Hf.
  assert (PI : forall i, parse_int i (TKw w :: rest) = Some (PInt i, TKw w :: rest)).
  { intro i. unfold parse_int. destruct (in_objnum i); reflexivity. }
  unfold wf in W. destruct v as [|bo|z|neg m|st|st|n|l|l|n g].
  - destruct fuel; [cbn in Hf; lia | reflexivity].
  - destruct fuel; [cbn in Hf; lia | reflexivity].
  - destruct fuel; [cbn in Hf; lia|]. cbn [toks app parse_toks parse_tok norm]. apply PI.
  - destruct fuel; [cbn in Hf; lia|]. cbn [toks app parse_toks norm] in *. unfold real_tok.
    destruct (m mod 1000000 =? 0); [|reflexivity]. cbn [parse_tok]. apply PI.
  - destruct fuel; [cbn in Hf; lia | reflexivity].
  - destruct fuel; [cbn in Hf; lia | reflexivity].
  - destruct fuel; [cbn in Hf; lia | reflexivity].
  - cbn [wf_gen] in W. apply andb_true_iff in W. destruct W as [W Ao].
    cbn [toks length] in Hf. rewrite app_length in Hf. cbn [length] in Hf.
    destruct fuel as [|f]; [lia|].
    cbn [toks norm]. rewrite <- app_comm_cons, <- app_assoc. cbn [app parse_toks parse_tok].
    rewrite (parse_elems bytes_ok l) ; [reflexivity | | exact W | exact Ao | lia].
    apply Forall_forall. intros x _. apply parse_toks_ser_gen.
  - cbn [wf_gen] in W. rewrite toks_dict in *. rewrite norm_dict.
    cbn [length] in Hf. rewrite app_length in Hf. cbn [length] in Hf.
    destruct fuel as [|f]; [lia|].
    rewrite <- app_comm_cons, <- app_assoc. cbn [app parse_toks parse_tok].
    rewrite (parse_entries bytes_ok (sort_kv l)).
    + destruct f as [|f]; [lia|]. cbn [after_dict next]. rewrite Hw. reflexivity.
    + apply Forall_forall. intros x _. apply parse_toks_ser_gen.
    + apply forallb_sort_kv. revert W. apply forallb_impl. intros x Hx. apply andb_true_iff in Hx. tauto.
    + lia.
  - cbn [wf_gen] in W. apply andb_true_iff in W. destruct W as [Wn Wg].
    destruct fuel; [cbn in Hf; lia|]. cbn [toks app parse_toks parse_tok norm]. unfold parse_int.
    assert (E1 : in_objnum (Z.of_N n) = true) by (unfold in_objnum; lia).
    assert (E2 : in_gen (Z.of_N g) = true) by (unfold in_gen; lia).
    rewrite E1. cbn [negb next]. rewrite E2. cbn [next].
    change (bytes_eqb name_R name_R) with true. cbv iota. rewrite !N2Z.id. reflexivity.
Qed.

(** Layer 1: the tokens of  ser_incr v ++ "\nendobj\n" ++ rest *)
Lemma incr_lex_then_endobj : forall v rest f, wf_incr v = true -> (S (length (toks v)) <= f)%nat ->
  lex_all f (ser_incr v ++ endobj_tail rest) =
  toks v ++ TKw w_endobj :: lex_all (f - S (length (toks v))) (10 :: rest).
Proof.
  intros v rest f W Hf.
  rewrite (incr_lex_all_gen v (endobj_tail rest) f W (good_rest_endobj_tail rest)) by lia.
  f_equal. destruct (f - length (toks v))%nat as [|k] eqn:E; [lia|].
  rewrite (lex_all_step _ _ _ k (lex1_endobj_tail rest) eq_refl).
  f_equal. f_equal. lia.
Qed.

(** both layers: the reader returns [norm v] and the next token is the keyword [endobj] *)
Theorem incr_read_value_endobj : forall v rest, wf_incr v = true ->
  exists ts', read_value (ser_incr v ++ endobj_tail rest) = Some (norm v, TKw w_endobj :: ts').
Proof.
  intros v rest W. unfold read_value. cbv zeta.
  pose proof (incr_toks_le v W) as L.
  rewrite (incr_lex_then_endobj v rest _ W) by (rewrite app_length; lia).
  eexists. apply parse_toks_then_kw; [apply wf_incr_wf; exact W | reflexivity|].
  rewrite app_length. lia.
Qed.

Corollary incr_parse_endobj : forall v rest, wf_incr v = true ->
  parse (ser_incr v ++ endobj_tail rest) = Some (norm v).
Proof.
  intros v rest W. rewrite parse_is_read_value.
  destruct (incr_read_value_endobj v rest W) as [ts' ->]. reflexivity.
Qed.

(** * Part 2 (C17): where a replacement object is, and what its bytes are *)

(** C17 writes the keyword with [s "endobj"]; C09 names the same bytes [w_endobj] *)
Lemma obj_bytes_split : forall o,
  obj_bytes o = header_of o ++ snd o ++ endobj_tail [].
Proof.
  intros [[n g] body]. unfold obj_bytes, header_of, endobj_tail. cbn [fst snd].
  rewrite <- !app_assoc. reflexivity.
Qed.

Lemma endobj_tail_app : forall a t, endobj_tail a ++ t = endobj_tail (a ++ t).
Proof. intros. unfold endobj_tail. cbn [app]. rewrite <- app_assoc. reflexivity. Qed.

(** [finish]: every object of the update (in the sorted order it is written) has a line in the
    appended section whose offset is the byte at which its "N G obj" starts — the analogue of
    [filler_xref_covers_lemma] for [IncrementalUpdate::finish] *)
Theorem update_xref_covers_lemma : forall base u pre o post,
  sort (u_objs u) = pre ++ o :: post ->
  let off := len (start_of base) + len (body_bytes pre) in
  In (fst (fst o), CE off (snd (fst o)) true) (flatten (group (entries_of (changed base u))))
  /\ exists t, skipn (N.to_nat off) (finish base u) = obj_bytes o ++ t.
Proof.
  intros base u pre o post E off. split.
  - rewrite group_flatten. unfold entries_of, changed. rewrite E, place_app. cbn [place].
    apply in_map_iff. exists (fst (fst o), snd (fst o), off). split; [reflexivity|].
    apply in_or_app. right. left. reflexivity.
  - unfold finish. cbv zeta. rewrite E, body_bytes_app, body_bytes_cons.
    unfold off. rewrite to_nat_len.
    eexists. rewrite <- !app_assoc. rewrite (app_assoc (start_of base) (body_bytes pre)).
    rewrite skipn_length_app. reflexivity.
Qed.

(** with distinct object numbers the reader of C04 resolves the object to exactly that byte *)
Theorem update_rewritten_reads_exact_lemma : forall secs base u pre o post,
  NoDup (map (fun o : robj => fst (fst o)) (u_objs u)) -> sort (u_objs u) = pre ++ o :: post ->
  lookup (file_table (secs ++ [section_of base u])) (fst (fst o)) =
  LOffset (len (start_of base) + len (body_bytes pre)).
Proof.
  intros secs base u pre o post ND E. rewrite update_reads_latest_lemma. unfold new_def.
  rewrite (rev_find_unique _ (fst (fst o)) (Direct (len (start_of base) + len (body_bytes pre)))); [reflexivity| |].
  - rewrite map_map. cbn [fst]. unfold changed. rewrite place_numbers.
    eapply Permutation_NoDup; [apply Permutation_map; symmetry; apply sort_perm | exact ND].
  - apply in_map_iff. exists (fst (fst o), snd (fst o), len (start_of base) + len (body_bytes pre)).
    split; [reflexivity|].
    unfold changed. rewrite E, place_app. cbn [place]. apply in_or_app. right. left. reflexivity.
Qed.

(** * Part 3: the composition *)

(** one object, located by its position in the written order *)
Theorem rewritten_object_parses_back_at : forall base u pre o post v,
  sort (u_objs u) = pre ++ o :: post -> snd o = ser_incr v -> wf_incr v = true ->
  let off := len (start_of base) + len (body_bytes pre) in
  In (fst (fst o), CE off (snd (fst o)) true) (flatten (group (entries_of (changed base u))))
  /\ exists t ts',
       skipn (N.to_nat off) (finish base u) = header_of o ++ ser_incr v ++ endobj_tail t
       /\ read_value (ser_incr v ++ endobj_tail t) = Some (norm v, TKw w_endobj :: ts')
       /\ parse (ser_incr v ++ endobj_tail t) = Some (norm v).
Proof.
  intros base u pre o post v E B W off.
  destruct (update_xref_covers_lemma base u pre o post E) as [I [t K]]. split; [exact I|].
  destruct (incr_read_value_endobj v t W) as [ts' R].
  exists t, ts'. split; [|split; [exact R | apply incr_parse_endobj; exact W]].
  fold off in K. rewrite K, obj_bytes_split, B. rewrite <- !app_assoc, endobj_tail_app. reflexivity.
Qed.

(** every replacement object of an update whose bodies are [ser_incr] of well-formed values *)
Theorem rewritten_object_parses_back_lemma : forall base u vals,
  map (fun o : robj => snd o) (u_objs u) = map ser_incr vals -> forallb wf_incr vals = true ->
  forall o, In o (u_objs u) ->
  exists off v t ts',
    In (fst (fst o), CE off (snd (fst o)) true) (flatten (group (entries_of (changed base u))))
    /\ len base <= off
    /\ In v vals /\ snd o = ser_incr v
    /\ skipn (N.to_nat off) (finish base u) = header_of o ++ ser_incr v ++ endobj_tail t
    /\ read_value (ser_incr v ++ endobj_tail t) = Some (norm v, TKw w_endobj :: ts')
    /\ parse (ser_incr v ++ endobj_tail t) = Some (norm v).
Proof.
  intros base u vals M Wf o Io.
  assert (Hv : exists v, In v vals /\ snd o = ser_incr v).
  { assert (J : In (snd o) (map (fun o : robj => snd o) (u_objs u))) by (apply in_map; exact Io).
    rewrite M in J. apply in_map_iff in J. destruct J as [v [Ev Iv]]. exists v. split; [exact Iv | symmetry; exact Ev]. }
  destruct Hv as [v [Iv B]].
  assert (W : wf_incr v = true) by (rewrite forallb_forall in Wf; apply Wf; exact Iv).
  assert (Is : In o (sort (u_objs u))) by (eapply Permutation_in; [symmetry; apply sort_perm | exact Io]).
  apply in_split in Is. destruct Is as [pre [post E]].
  destruct (rewritten_object_parses_back_at base u pre o post v E B W) as [I [t [ts' [K [R P]]]]].
  exists (len (start_of base) + len (body_bytes pre)), v, t, ts'.
  repeat split; try assumption.
  unfold start_of. rewrite len_app. lia.
Qed.

(** with distinct object numbers: the offset C04's reader resolves the object to IS that byte *)
Theorem rewritten_object_resolves_and_parses_back_lemma : forall secs base u vals,
  NoDup (map (fun o : robj => fst (fst o)) (u_objs u)) ->
  map (fun o : robj => snd o) (u_objs u) = map ser_incr vals -> forallb wf_incr vals = true ->
  forall o, In o (u_objs u) ->
  exists off v t ts',
    lookup (file_table (secs ++ [section_of base u])) (fst (fst o)) = LOffset off
    /\ In v vals /\ snd o = ser_incr v
    /\ skipn (N.to_nat off) (finish base u) = header_of o ++ ser_incr v ++ endobj_tail t
    /\ read_value (ser_incr v ++ endobj_tail t) = Some (norm v, TKw w_endobj :: ts').
Proof.
  intros secs base u vals ND M Wf o Io.
  assert (Hv : exists v, In v vals /\ snd o = ser_incr v).
  { assert (J : In (snd o) (map (fun o : robj => snd o) (u_objs u))) by (apply in_map; exact Io).
    rewrite M in J. apply in_map_iff in J. destruct J as [v [Ev Iv]]. exists v. split; [exact Iv | symmetry; exact Ev]. }
  destruct Hv as [v [Iv B]].
  assert (W : wf_incr v = true) by (rewrite forallb_forall in Wf; apply Wf; exact Iv).
  assert (Is : In o (sort (u_objs u))) by (eapply Permutation_in; [symmetry; apply sort_perm | exact Io]).
  apply in_split in Is. destruct Is as [pre [post E]].
  destruct (rewritten_object_parses_back_at base u pre o post v E B W) as [_ [t [ts' [K [R _]]]]].
  exists (len (start_of base) + len (body_bytes pre)), v, t, ts'.
  repeat split; try assumption.
  apply update_rewritten_reads_exact_lemma with (post := post); assumption.
Qed.

(** ** the form filler's own tail ([filler_out]): same statement from [filler_xref_covers_lemma] *)
Theorem filler_object_parses_back_lemma : forall base f pre o post v,
  ff_objs f = pre ++ o :: post -> snd o = ser_incr v -> wf_incr v = true ->
  let off := len base + len (body_bytes pre) in
  In (fst (fst o), CE off (snd (fst o)) true) (flatten (group (entries_of (fxref base f))))
  /\ exists t ts',
       skipn (N.to_nat off) (filler_out base f) = header_of o ++ ser_incr v ++ endobj_tail t
       /\ read_value (ser_incr v ++ endobj_tail t) = Some (norm v, TKw w_endobj :: ts')
       /\ parse (ser_incr v ++ endobj_tail t) = Some (norm v).
Proof.
  intros base f pre o post v E B W off.
  destruct (filler_xref_covers_lemma base f pre o post E) as [I [t K]]. split; [exact I|].
  destruct (incr_read_value_endobj v t W) as [ts' R].
  exists t, ts'. split; [|split; [exact R | apply incr_parse_endobj; exact W]].
  fold off in K. rewrite K, obj_bytes_split, B. rewrite <- !app_assoc, endobj_tail_app. reflexivity.
Qed.

(** * Part 4: the whole indirect object — header tokens included *)

(** C17's [dec] (Rust Display, fuel 40) and C09's [dec] (fuel = bit size) print the same digits *)
Lemma dec_aux_S : forall f n acc, dec_aux (S f) n acc =
  if n / 10 =? 0 then (48 + n mod 10) :: acc else dec_aux f (n / 10) ((48 + n mod 10) :: acc).
Proof. reflexivity. Qed.
Lemma dec_f_S : forall f n acc, dec_f (S f) n acc =
  if n <? 10 then (48 + n) :: acc else dec_f f (n / 10) ((48 + n mod 10) :: acc).
Proof. reflexivity. Qed.

Lemma dec_aux_dec_f : forall f1 f2 n acc, n < pow10 (S f1) -> n < pow10 (S f2) ->
  dec_aux (S f1) n acc = dec_f (S f2) n acc.
Proof.
  induction f1 as [|f1 IH]; intros f2 n acc H1 H2; rewrite dec_aux_S, dec_f_S;
    destruct (n <? 10) eqn:E.
  - apply N.ltb_lt in E. rewrite N.div_small, N.mod_small by lia. reflexivity.
  - apply N.ltb_ge in E. change (pow10 1) with 10 in H1. lia.
  - apply N.ltb_lt in E. rewrite N.div_small, N.mod_small by lia. reflexivity.
  - apply N.ltb_ge in E.
    assert (Q : n / 10 =? 0 = false).
    { apply N.eqb_neq. intro Z. apply N.div_small_iff in Z; lia. }
    rewrite Q. destruct f2 as [|f2]; [change (pow10 1) with 10 in H2; lia|].
    apply IH; apply N.div_lt_upper_bound; try lia; assumption.
Qed.

Lemma pow2_le_pow10 : forall k, 2 ^ N.of_nat k <= pow10 k.
Proof.
  induction k as [|k IH]; [cbn; lia|].
  rewrite Nnat.Nat2N.inj_succ, N.pow_succ_r'. change (pow10 (S k)) with (10 * pow10 k). lia.
Qed.

Lemma dec_same : forall n, n < pow10 40 -> dec n = C09.Model.dec n.
Proof.
  intros n H. unfold dec, C09.Model.dec. apply dec_aux_dec_f; [exact H|].
  pose proof (N.size_gt n) as G. pose proof (pow2_le_pow10 (N.to_nat (N.size n))) as P.
  rewrite Nnat.N2Nat.id in P. change (pow10 (S (N.to_nat (N.size n)))) with (10 * pow10 (N.to_nat (N.size n))). lia.
Qed.

Lemma dec_is_dec_z : forall n, n <= 4294967295 -> dec n = dec_z (Z.of_N n).
Proof.
  intros n H. rewrite dec_same.
  - destruct n; reflexivity.
  - eapply N.le_lt_trans; [exact H|]. vm_compute. reflexivity.
Qed.

(** the tokens of one written object: N G obj <tokens of v> endobj *)
Lemma obj_bytes_lexes : forall o v t,
  fst (fst o) <= 4294967295 -> snd (fst o) <= 65535 -> wf_incr v = true ->
  Lexes (header_of o ++ ser_incr v ++ endobj_tail t)
        (TInt (Z.of_N (fst (fst o))) :: TInt (Z.of_N (snd (fst o))) :: TKw w_obj :: toks v ++ [TKw w_endobj])
        (10 :: t).
Proof.
  intros [[n g] body] v t Hn Hg W. cbn [fst snd] in *. unfold header_of. cbn [fst snd].
  rewrite (dec_is_dec_z n Hn), (dec_is_dec_z g) by lia.
  assert (In_ : int_ok (Z.of_N n) = true) by (unfold int_ok, i64_min, i64_max; lia).
  assert (Ig : int_ok (Z.of_N g) = true) by (unfold int_ok, i64_min, i64_max; lia).
  unfold sp, nl. rewrite <- !app_assoc. cbn [app].
  eapply Lexes_tok; [apply lex1_int; [exact In_ | apply good_rest_sp] | reflexivity | apply app_longer, dec_z_nonempty |].
  apply Lexes_ws; [reflexivity|].
  eapply Lexes_tok; [apply lex1_int; [exact Ig | apply good_rest_sp] | reflexivity | apply app_longer, dec_z_nonempty |].
  change (s " obj") with [32; 111; 98; 106]. cbn [app].
  eapply Lexes_tok with (r := 10 :: ser_incr v ++ endobj_tail t); [reflexivity | reflexivity | cbn [length]; lia |].
  apply Lexes_ws; [reflexivity|].
  eapply Lexes_app; [apply incr_lexes; [exact W | apply good_rest_endobj_tail]|].
  eapply Lexes_tok; [apply lex1_endobj_tail | reflexivity | unfold endobj_tail, w_endobj; cbn [length app]; lia | apply Lexes_nil].
Qed.

(** A reader of one indirect object over C09's lexer and parser, shaped after
    parser/reader.rs [parse_indirect-object at offset]: integer, integer, keyword [obj], one value
    ([parse_tok], C09), keyword [endobj].  This definition is NOT tied to the Rust code by a
    correspondence channel (the lexer and the value parser inside it are: C09); it only packages the
    token-level facts above into one equation. *)
Definition read_indirect (bs : bytes) : option (Z * Z * pobj) :=
  match lex_all (S (length bs)) bs with
  | TInt n :: TInt g :: TKw w :: ts =>
      if bytes_eqb w w_obj then
        match parse_toks (4 * length ts + 4) ts with
        | Some (v, TKw w' :: _) => if bytes_eqb w' w_endobj then Some (n, g, v) else None
        | _ => None
        end
      else None
  | _ => None
  end.

Theorem obj_bytes_read_indirect : forall o v t,
  fst (fst o) <= 4294967295 -> snd (fst o) <= 65535 -> wf_incr v = true ->
  read_indirect (header_of o ++ ser_incr v ++ endobj_tail t) =
  Some (Z.of_N (fst (fst o)), Z.of_N (snd (fst o)), norm v).
Proof.
  intros o v t Hn Hg W. unfold read_indirect.
  pose proof (obj_bytes_lexes o v t Hn Hg W) as L.
  pose proof (Lexes_len _ _ _ L) as Len.
  rewrite (Lexes_lex_all _ _ _ L) by lia.
  cbn [app]. change (bytes_eqb w_obj w_obj) with true. cbv iota.
  rewrite <- app_assoc. cbn [app].
  rewrite parse_toks_then_kw; [| apply wf_incr_wf; exact W | reflexivity |].
  - change (bytes_eqb w_endobj w_endobj) with true. reflexivity.
  - rewrite app_length. lia.
Qed.

(** the composition with the layout: reading one indirect object at the recorded offset *)
Theorem rewritten_object_read_indirect_lemma : forall base u pre o post v,
  sort (u_objs u) = pre ++ o :: post -> snd o = ser_incr v -> wf_incr v = true ->
  fst (fst o) <= 4294967295 -> snd (fst o) <= 65535 ->
  let off := len (start_of base) + len (body_bytes pre) in
  In (fst (fst o), CE off (snd (fst o)) true) (flatten (group (entries_of (changed base u))))
  /\ read_indirect (skipn (N.to_nat off) (finish base u)) =
     Some (Z.of_N (fst (fst o)), Z.of_N (snd (fst o)), norm v).
Proof.
  intros base u pre o post v E B W Hn Hg off.
  destruct (rewritten_object_parses_back_at base u pre o post v E B W) as [I [t [ts' [K _]]]].
  split; [exact I|]. fold off in K. rewrite K. apply obj_bytes_read_indirect; assumption.
Qed.

Theorem filler_object_read_indirect_lemma : forall base f pre o post v,
  ff_objs f = pre ++ o :: post -> snd o = ser_incr v -> wf_incr v = true ->
  fst (fst o) <= 4294967295 -> snd (fst o) <= 65535 ->
  let off := len base + len (body_bytes pre) in
  In (fst (fst o), CE off (snd (fst o)) true) (flatten (group (entries_of (fxref base f))))
  /\ read_indirect (skipn (N.to_nat off) (filler_out base f)) =
     Some (Z.of_N (fst (fst o)), Z.of_N (snd (fst o)), norm v).
Proof.
  intros base f pre o post v E B W Hn Hg off.
  destruct (filler_object_parses_back_lemma base f pre o post v E B W) as [I [t [ts' [K _]]]].
  split; [exact I|]. fold off in K. rewrite K. apply obj_bytes_read_indirect; assumption.
Qed.

(** * Non-vacuity: a base without final EOL; two replacements registered in descending order, the
    second body a nested dictionary with a non-ASCII name (C3 A9 SP / #), a string with parentheses
    and a backslash, a reference, nested dictionaries ([incr_sample] of C09/IncrFull.v) *)
Definition pb_vals : list obj := [ODict [(b "K", OInt 7); (b "A B", OArr [ORef 3 0; OBool true])]; incr_sample].
Definition pb_upd : upd :=
  {| u_prev := 9; u_root := (1, 0); u_orig_size := 6; u_next_id := 8; u_id := None;
     u_objs := [(7, 0, ser_incr (nth 0 pb_vals ONull)); (3, 0, ser_incr incr_sample)] |}.
Definition pb_base : bytes := s "%PDF-1.4 ... %%EOF".

Example pb_hyps :
  map (fun o : robj => snd o) (u_objs pb_upd) = map ser_incr pb_vals
  /\ forallb wf_incr pb_vals = true
  /\ sort (u_objs pb_upd) = [] ++ (3, 0, ser_incr incr_sample) :: [(7, 0, ser_incr (nth 0 pb_vals ONull))]
  /\ ends_eol pb_base = false.
Proof. vm_compute. repeat split; reflexivity. Qed.

Lemma pb_nodup : NoDup (map (fun o : robj => fst (fst o)) (u_objs pb_upd)).
Proof. cbn. repeat constructor; cbn; intuition discriminate. Qed.

(** the conclusion computes: the section's line for object 3 is offset 19 (= 18 bytes of base + the
    inserted LF), C04's reader resolves 3 to it, the bytes there are the header, the body and
    "\nendobj\n", and the reader returns the value followed by the keyword *)
Example pb_concl :
  let out := finish pb_base pb_upd in
  In (3, CE 19 0 true) (flatten (group (entries_of (changed pb_base pb_upd))))
  /\ lookup (file_table ([Classic [(0, [CE 0 65535 false; CE 15 0 true; CE 30 0 true; CE 40 0 true])]] ++ [section_of pb_base pb_upd])) 3 = LOffset 19
  /\ is_prefixb (s "3 0 obj" ++ nl ++ ser_incr incr_sample ++ nl ++ s "endobj" ++ nl ++ s "7 0 obj" ++ nl) (skipn 19 out) = true
  /\ option_map (fun r => (fst r, hd TEof (snd r))) (read_value (skipn (19 + 8) out)) = Some (norm incr_sample, TKw w_endobj)
  /\ parse (ser_incr incr_sample ++ endobj_tail (skipn (19 + 8 + length (ser_incr incr_sample) + 8) out)) = Some (norm incr_sample)
  /\ read_indirect (skipn 19 out) = Some (3%Z, 0%Z, norm incr_sample)
  /\ ascii_names incr_sample = false.
Proof. vm_compute. repeat split; auto. Qed.
