(** C26 — proofs: the code-shaped [map_model] over the parsed entries equals the reference
    semantics over integer codes wherever the CMap defines at most one value for the code. *)
From OxVerif Require Import Base.Util C26.Model.
From Coq Require Import Permutation Zify ZifyBool.
Open Scope N_scope.
Ltac Zify.zify_post_hook ::= Z.to_euclidean_division_equations.

(** * big-endian / little-endian values *)
Definition le (r : bytes) : N := fold_right (fun b a => b + 256 * a) 0 r.

Fixpoint to_le (len : nat) (v : N) : bytes :=
  match len with
  | O => []
  | S l => (v mod 256) :: to_le l (v / 256)
  end.

Lemma be_fold l : forall a, fold_left (fun a x => a * 256 + x) l a = a * 256 ^ N.of_nat (length l) + be l.
Proof.
  unfold be. induction l as [|x l IH]; intros a; cbn [fold_left length].
  - cbn. lia.
  - rewrite IH. rewrite (IH (0 * 256 + x)). rewrite Nat2N.inj_succ, N.pow_succ_r'. lia.
Qed.

Lemma be_cons x l : be (x :: l) = x * 256 ^ N.of_nat (length l) + be l.
Proof. unfold be at 1. cbn [fold_left]. rewrite be_fold. lia. Qed.

Lemma be_app l x : be (l ++ [x]) = be l * 256 + x.
Proof. unfold be. rewrite fold_left_app. reflexivity. Qed.

Lemma be_rev r : be (rev r) = le r.
Proof.
  induction r as [|b r IH]; [reflexivity|].
  cbn [rev le fold_right]. rewrite be_app, IH. fold (le r). lia.
Qed.

Lemma bytes_ok_cons x l : bytes_ok (x :: l) = true <-> x < 256 /\ bytes_ok l = true.
Proof. unfold bytes_ok, byte_ok. cbn [forallb]. rewrite andb_true_iff, N.ltb_lt. tauto. Qed.

Lemma bytes_ok_app a b : bytes_ok (a ++ b) = true <-> bytes_ok a = true /\ bytes_ok b = true.
Proof. unfold bytes_ok. rewrite forallb_app, andb_true_iff. tauto. Qed.

Lemma bytes_ok_single x : bytes_ok [x] = true <-> x < 256.
Proof. rewrite bytes_ok_cons. split; [tauto | intros; split; [assumption | reflexivity]]. Qed.

Lemma bytes_ok_rev l : bytes_ok (rev l) = true <-> bytes_ok l = true.
Proof.
  induction l as [|x l IH]; [tauto|].
  cbn [rev]. rewrite bytes_ok_app, bytes_ok_single, IH, (bytes_ok_cons x l). tauto.
Qed.

Lemma be_bound l : bytes_ok l = true -> be l < 256 ^ N.of_nat (length l).
Proof.
  induction l as [|x l IH]; intros H.
  - cbn. lia.
  - apply bytes_ok_cons in H. destruct H as [Hx Hl]. specialize (IH Hl).
    rewrite be_cons. cbn [length]. rewrite Nat2N.inj_succ, N.pow_succ_r'. nia.
Qed.

Lemma to_le_length len v : length (to_le len v) = len.
Proof. revert v. induction len; intros; cbn; congruence. Qed.

Lemma to_be_length len v : length (to_be len v) = len.
Proof. revert v. induction len as [|l IH]; intros; cbn [to_be length]; [reflexivity|]. rewrite app_length, IH. cbn. lia. Qed.

Lemma rev_to_le len : forall v, rev (to_le len v) = to_be len v.
Proof. induction len as [|l IH]; intros v; cbn [to_le to_be rev]; [reflexivity|]. rewrite IH. reflexivity. Qed.

Lemma to_le_le r : bytes_ok r = true -> to_le (length r) (le r) = r.
Proof.
  induction r as [|b r IH]; intros H; [reflexivity|].
  apply bytes_ok_cons in H. destruct H as [Hb Hr].
  cbn [length to_le le fold_right]. fold (le r).
  replace ((b + 256 * le r) mod 256) with b.
  2:{ lia. }
  replace ((b + 256 * le r) / 256) with (le r).
  2:{ lia. }
  rewrite IH by exact Hr. reflexivity.
Qed.

Lemma to_be_be l : bytes_ok l = true -> to_be (length l) (be l) = l.
Proof.
  intros H.
  assert (E : to_be (length (rev (rev l))) (be (rev (rev l))) = rev (rev l)).
  { rewrite be_rev, rev_length, <- rev_to_le, to_le_le by (apply bytes_ok_rev; exact H). reflexivity. }
  rewrite rev_involutive in E. exact E.
Qed.

Lemma be_inj a b : length a = length b -> bytes_ok a = true -> bytes_ok b = true -> be a = be b -> a = b.
Proof.
  intros Hl Ha Hb E. rewrite <- (to_be_be a Ha), <- (to_be_be b Hb), Hl, E. reflexivity.
Qed.

(** * Rust slice order = numeric order on equal lengths *)
Lemma lex_le_be a : forall b, length a = length b -> bytes_ok a = true -> bytes_ok b = true ->
  lex_le a b = (be a <=? be b).
Proof.
  induction a as [|x a IH]; intros [|y b] Hl Ha Hb; try discriminate.
  - reflexivity.
  - cbn [length] in Hl. injection Hl as Hl.
    apply bytes_ok_cons in Ha. destruct Ha as [Hx Ha].
    apply bytes_ok_cons in Hb. destruct Hb as [Hy Hb].
    cbn [lex_le]. rewrite !be_cons, <- Hl.
    pose proof (be_bound a Ha) as Ba. pose proof (be_bound b Hb) as Bb. rewrite <- Hl in Bb.
    set (P := 256 ^ N.of_nat (length a)) in *.
    destruct (x <? y) eqn:E1.
    + apply N.ltb_lt in E1. symmetry. apply N.leb_le. nia.
    + apply N.ltb_ge in E1. destruct (y <? x) eqn:E2.
      * apply N.ltb_lt in E2. symmetry. apply N.leb_gt. nia.
      * apply N.ltb_ge in E2. assert (x = y) by lia. subst y.
        rewrite (IH b Hl Ha Hb).
        destruct (be a <=? be b) eqn:E3; symmetry.
        -- apply N.leb_le in E3. apply N.leb_le. lia.
        -- apply N.leb_gt in E3. apply N.leb_gt. lia.
Qed.

(** * destination + offset: the byte-wise carry loop is integer addition modulo 256^len *)
Lemma mod_mul_div a m : m <> 0 -> (a mod (256 * m)) / 256 = (a / 256) mod m.
Proof.
  intros Hm. rewrite N.mod_mul_r by lia.
  assert (Hlt : a mod 256 < 256) by (apply N.mod_lt; lia).
  generalize dependent (a mod 256). generalize ((a / 256) mod m). intros X Y HY. lia.
Qed.

Lemma mod_mul_mod a m : m <> 0 -> (a mod (256 * m)) mod 256 = a mod 256.
Proof.
  intros Hm. rewrite N.mod_mul_r by lia.
  assert (Hlt : a mod 256 < 256) by (apply N.mod_lt; lia).
  generalize dependent (a mod 256). generalize ((a / 256) mod m). intros X Y HY. lia.
Qed.

Lemma add_rev_spec r : forall c, bytes_ok r = true ->
  add_rev r c = to_le (length r) ((le r + c) mod 256 ^ N.of_nat (length r)).
Proof.
  induction r as [|b r IH]; intros c H; [reflexivity|].
  apply bytes_ok_cons in H. destruct H as [Hb Hr].
  cbn [add_rev length to_le le fold_right]. fold (le r).
  rewrite Nat2N.inj_succ, N.pow_succ_r'.
  assert (Hp : 256 ^ N.of_nat (length r) <> 0) by (apply N.pow_nonzero; lia).
  rewrite mod_mul_mod by exact Hp. rewrite mod_mul_div by exact Hp.
  replace (b + 256 * le r + c) with ((b + c) + le r * 256) by lia.
  rewrite N.mod_add by lia. rewrite N.div_add by lia.
  f_equal.
  destruct ((b + c) / 256 =? 0) eqn:E.
  - apply N.eqb_eq in E. rewrite E, N.add_0_l.
    rewrite N.mod_small.
    + symmetry. apply to_le_le. exact Hr.
    + rewrite <- be_rev, <- rev_length. apply be_bound. apply bytes_ok_rev. exact Hr.
  - rewrite (IH _ Hr). f_equal. f_equal. lia.
Qed.

Lemma add_carry_spec d n : bytes_ok d = true -> add_carry d n = be_add d n.
Proof.
  intros H. unfold add_carry, be_add.
  rewrite add_rev_spec by (apply bytes_ok_rev; exact H).
  rewrite rev_to_le, rev_length, <- be_rev, rev_involutive. reflexivity.
Qed.

(** * increment_be is +1 below the maximum *)
Lemma inc_rev_spec r : bytes_ok r = true -> le r + 1 < 256 ^ N.of_nat (length r) ->
  le (inc_rev r) = le r + 1 /\ length (inc_rev r) = length r /\ bytes_ok (inc_rev r) = true.
Proof.
  induction r as [|b r IH]; intros H Hlt.
  - cbn in Hlt. lia.
  - apply bytes_ok_cons in H. destruct H as [Hb Hr].
    cbn [inc_rev]. cbn [le fold_right length] in Hlt. fold (le r) in Hlt.
    rewrite Nat2N.inj_succ, N.pow_succ_r' in Hlt.
    destruct (b =? 255) eqn:E.
    + apply N.eqb_eq in E. subst b.
      destruct IH as [I1 [I2 I3]]; [exact Hr | nia |].
      cbn [le fold_right length]. fold (le (inc_rev r)) (le r). rewrite I1, I2.
      split; [lia|]. split; [reflexivity|]. apply bytes_ok_cons. split; [lia | exact I3].
    + apply N.eqb_neq in E. cbn [le fold_right length]. fold (le r).
      split; [lia|]. split; [reflexivity|]. apply bytes_ok_cons. split; [lia | exact Hr].
Qed.

Lemma increment_be_spec c : bytes_ok c = true -> be c + 1 < 256 ^ N.of_nat (length c) ->
  be (increment_be c) = be c + 1 /\ length (increment_be c) = length c /\ bytes_ok (increment_be c) = true.
Proof.
  intros H Hlt. unfold increment_be.
  destruct (inc_rev_spec (rev c)) as [I1 [I2 I3]].
  - apply bytes_ok_rev. exact H.
  - rewrite <- be_rev, rev_involutive, rev_length. exact Hlt.
  - rewrite be_rev, rev_length, I1, I2, <- be_rev, rev_involutive, rev_length.
    split; [reflexivity|]. split; [reflexivity|]. apply bytes_ok_rev. exact I3.
Qed.

(** * values contributed by entries *)
Definition vals (es : list entry) (code : bytes) : list bytes :=
  filter_some (List.map (fun e => entry_value e code) es).

Lemma filter_some_app {A} (a b : list (option A)) : filter_some (a ++ b) = filter_some a ++ filter_some b.
Proof. induction a as [|[x|] a IH]; cbn; [reflexivity | rewrite IH; reflexivity | exact IH]. Qed.

Lemma vals_app a b code : vals (a ++ b) code = vals a code ++ vals b code.
Proof. unfold vals. rewrite map_app, filter_some_app. reflexivity. Qed.

Lemma vals_cons e es code :
  vals (e :: es) code = match entry_value e code with Some v => v :: vals es code | None => vals es code end.
Proof. unfold vals. cbn [List.map filter_some]. destruct (entry_value e code); reflexivity. Qed.

Lemma last_single_app a b code acc :
  last_single code (a ++ b) acc = last_single code b (last_single code a acc).
Proof. revert acc. induction a as [|[s d|s e d] a IH]; intros acc; cbn [app last_single]; [reflexivity | apply IH | apply IH]. Qed.

Lemma first_range_app a b code :
  first_range code (a ++ b) = match first_range code a with Some v => Some v | None => first_range code b end.
Proof.
  induction a as [|[s d|s e d] a IH]; cbn [app first_range]; [reflexivity | exact IH |].
  destruct (entry_value (Range s e d) code); [reflexivity | exact IH].
Qed.

Lemma none_all es code :
  vals es code = [] -> forall acc, last_single code es acc = acc /\ first_range code es = None.
Proof.
  induction es as [|e es IH]; intros H acc; [split; reflexivity|].
  rewrite vals_cons in H. destruct (entry_value e code) eqn:E; [discriminate|].
  destruct (IH H acc) as [I1 I2]. destruct e as [s d|s e0 d].
  - cbn [last_single first_range]. cbn [entry_value] in E.
    destruct (bytes_eqb s code); [discriminate|]. split; assumption.
  - cbn [last_single first_range]. rewrite E. split; assumption.
Qed.

(** Lemma A: when at most one entry gives a value, [map_model] returns exactly it *)
Lemma map_model_unique es code :
  (length (vals es code) <= 1)%nat -> map_model es code = hd_error (vals es code).
Proof.
  unfold map_model.
  induction es as [|e es IH]; intros H; [reflexivity|].
  rewrite vals_cons in *. destruct (entry_value e code) as [v|] eqn:E.
  - cbn [length] in H. assert (Hn : vals es code = []) by (destruct (vals es code); [reflexivity | cbn in H; lia]).
    cbn [hd_error]. destruct e as [s d|s e0 d].
    + cbn [entry_value] in E. destruct (bytes_eqb s code) eqn:Es; [|discriminate]. injection E as ->.
      cbn [last_single]. rewrite Es.
      destruct (none_all es code Hn (Some v)) as [I1 _]. rewrite I1. reflexivity.
    + cbn [last_single first_range]. rewrite E.
      destruct (none_all es code Hn None) as [I1 _]. rewrite I1. reflexivity.
  - destruct e as [s d|s e0 d].
    + cbn [entry_value] in E. destruct (bytes_eqb s code) eqn:Es; [discriminate|].
      cbn [last_single first_range]. rewrite Es. apply IH. exact H.
    + cbn [last_single first_range]. rewrite E. apply IH. exact H.
Qed.

(** whatever the overlaps, a mapped code gets the value of SOME definition entry *)
Lemma last_single_in es code : forall acc v,
  last_single code es acc = Some v -> acc = Some v \/ In v (vals es code).
Proof.
  induction es as [|e es IH]; intros acc v H; [left; exact H|].
  rewrite vals_cons. destruct e as [s d|s e0 d]; cbn [last_single entry_value] in *.
  - destruct (bytes_eqb s code).
    + destruct (IH _ _ H) as [I|I]; [injection I as ->; right; left; reflexivity | right; right; exact I].
    + apply IH. exact H.
  - destruct (IH _ _ H) as [I|I]; [left; exact I|]. right.
    destruct ((_ =? _) && _ && _); [right|]; exact I.
Qed.

Lemma first_range_in es code v : first_range code es = Some v -> In v (vals es code).
Proof.
  induction es as [|e es IH]; intros H; [discriminate|].
  rewrite vals_cons. destruct e as [s d|s e0 d]; cbn [first_range] in H.
  - cbn [entry_value]. destruct (bytes_eqb s code); [right|]; apply IH; exact H.
  - destruct (entry_value (Range s e0 d) code) as [w|] eqn:E.
    + injection H as ->. left. reflexivity.
    + apply IH. exact H.
Qed.

Lemma map_model_in es code v : map_model es code = Some v -> In v (vals es code).
Proof.
  unfold map_model. destruct (last_single code es None) as [d|] eqn:E.
  - intros H. injection H as ->. destruct (last_single_in _ _ _ _ E) as [I|I]; [discriminate | exact I].
  - apply first_range_in.
Qed.

(** * Lemma B: the entries a definition expands to give exactly the definition's value *)
Definition entries_of_def (d : def) : list entry :=
  match d with
  | DChar s t => [Single s t]
  | DRange lo hi t => [Range lo hi t]
  | DArr lo hi ds => expand_array lo hi ds
  end.

Definition ov (o : option bytes) : list bytes := match o with Some v => [v] | None => [] end.

Lemma same_len_iff a b : same_len a b = true <-> length a = length b.
Proof. unfold same_len. rewrite N.eqb_eq. split; [apply Nat2N.inj | congruence]. Qed.

Lemma same_len_false a b : same_len a b = false <-> length a <> length b.
Proof. rewrite <- same_len_iff. destruct (same_len a b); split; congruence. Qed.

Lemma bytes_eqb_refl a : bytes_eqb a a = true.
Proof. apply bytes_eqb_eq. reflexivity. Qed.

Lemma bytes_eqb_neq a b : bytes_eqb a b = false <-> a <> b.
Proof. rewrite <- bytes_eqb_eq. destruct (bytes_eqb a b); split; congruence. Qed.

Lemma expand_array_vals hi code :
  bytes_ok hi = true -> bytes_ok code = true ->
  forall ds cur, length cur = length hi -> bytes_ok cur = true -> be cur <= be hi ->
  vals (expand_array cur hi ds) code =
  ov (if same_len code cur && (be cur <=? be code) && (be code <=? be hi)
      then nth_error ds (N.to_nat (be code - be cur)) else None).
Proof.
  intros Hhi Hcode. induction ds as [|d ds IH]; intros cur Hl Hcur Hle.
  - cbn [expand_array]. destruct (_ && _ && _); [|reflexivity].
    destruct (N.to_nat (be code - be cur)); reflexivity.
  - cbn [expand_array]. rewrite vals_cons. cbn [entry_value].
    rewrite (lex_le_be hi cur (eq_sym Hl) Hhi Hcur).
    destruct (bytes_eqb cur code) eqn:Ec.
    + apply bytes_eqb_eq in Ec. subst code.
      assert (same_len cur cur = true) as -> by (apply same_len_iff; reflexivity).
      rewrite N.leb_refl. cbn [andb].
      assert (be cur <=? be hi = true) as -> by (apply N.leb_le; exact Hle).
      rewrite N.sub_diag. cbn [N.to_nat nth_error ov]. f_equal.
      destruct (be hi <=? be cur) eqn:Es; [reflexivity|].
      apply N.leb_gt in Es.
      pose proof (be_bound hi Hhi) as Bh. rewrite <- Hl in Bh.
      destruct (increment_be_spec cur Hcur ltac:(lia)) as [I1 [I2 I3]].
      rewrite IH; [|congruence | exact I3 | lia].
      assert (same_len cur (increment_be cur) = true) as -> by (apply same_len_iff; congruence).
      rewrite I1. assert (be cur + 1 <=? be cur = false) as -> by (apply N.leb_gt; lia).
      reflexivity.
    + apply bytes_eqb_neq in Ec.
      destruct (same_len code cur) eqn:Esl.
      2:{ cbn [andb ov]. destruct (be hi <=? be cur) eqn:Es; [reflexivity|].
          apply N.leb_gt in Es.
          pose proof (be_bound hi Hhi) as Bh. rewrite <- Hl in Bh.
          destruct (increment_be_spec cur Hcur ltac:(lia)) as [I1 [I2 I3]].
          rewrite IH; [|congruence | exact I3 | lia].
          assert (same_len code (increment_be cur) = false) as ->.
          { apply same_len_false. apply same_len_false in Esl. congruence. }
          reflexivity. }
      apply same_len_iff in Esl.
      assert (Hne : be code <> be cur).
      { intros E. apply Ec. symmetry. apply be_inj; [congruence | assumption | assumption | exact E]. }
      cbn [andb].
      destruct (be hi <=? be cur) eqn:Es.
      * apply N.leb_le in Es. assert (be cur = be hi) by lia.
        cbn [vals List.map filter_some].
        destruct (be cur <=? be code) eqn:E1; [|reflexivity].
        destruct (be code <=? be hi) eqn:E2; [|reflexivity].
        apply N.leb_le in E1, E2. lia.
      * apply N.leb_gt in Es.
        pose proof (be_bound hi Hhi) as Bh. rewrite <- Hl in Bh.
        destruct (increment_be_spec cur Hcur ltac:(lia)) as [I1 [I2 I3]].
        rewrite IH; [|congruence | exact I3 | lia].
        assert (same_len code (increment_be cur) = true) as -> by (apply same_len_iff; congruence).
        rewrite I1. cbn [andb].
        destruct (be cur <=? be code) eqn:E1.
        -- apply N.leb_le in E1.
           assert (be cur + 1 <=? be code = true) as -> by (apply N.leb_le; lia).
           destruct (be code <=? be hi); [|reflexivity].
           replace (N.to_nat (be code - be cur)) with (S (N.to_nat (be code - (be cur + 1)))) by lia.
           reflexivity.
        -- apply N.leb_gt in E1.
           assert (be cur + 1 <=? be code = false) as -> by (apply N.leb_gt; lia).
           reflexivity.
Qed.

Lemma def_entries_vals d code :
  def_wf d = true -> bytes_ok code = true ->
  vals (entries_of_def d) code = ov (def_value d code).
Proof.
  intros Hwf Hcode. destruct d as [s t|lo hi t|lo hi ds]; cbn [entries_of_def def_value].
  - unfold vals. cbn. destruct (bytes_eqb s code); reflexivity.
  - cbn [def_wf] in Hwf. repeat (apply andb_true_iff in Hwf; destruct Hwf as [Hwf ?]).
    apply same_len_iff in Hwf.
    unfold vals. cbn [List.map entry_value]. unfold in_range.
    fold (same_len code lo).
    destruct (same_len code lo) eqn:Esl.
    + apply same_len_iff in Esl.
      assert (same_len code hi = true) as -> by (apply same_len_iff; congruence).
      rewrite (lex_le_be lo code) by (congruence || assumption).
      rewrite (lex_le_be code hi) by (congruence || assumption).
      cbn [andb]. destruct ((be lo <=? be code) && (be code <=? be hi)); [|reflexivity].
      cbn [filter_some ov]. rewrite add_carry_spec by assumption. reflexivity.
    + reflexivity.
  - cbn [def_wf] in Hwf. repeat (apply andb_true_iff in Hwf; destruct Hwf as [Hwf ?]).
    apply same_len_iff in Hwf.
    rewrite expand_array_vals; try assumption; [|apply N.leb_le; assumption].
    unfold in_range.
    destruct (same_len code lo) eqn:Esl; [|reflexivity].
    apply same_len_iff in Esl.
    assert (same_len code hi = true) as -> by (apply same_len_iff; congruence).
    reflexivity.
Qed.

(** entries of a CMap = concatenation of the entries of its definitions *)
Lemma entries_of_defs secs : entries_of secs = flat_map entries_of_def (defs_of secs).
Proof.
  unfold entries_of, defs_of. induction secs as [|s secs IH]; [reflexivity|].
  cbn [flat_map]. rewrite flat_map_app, IH. f_equal.
  destruct s as [l|l|l]; cbn [entries_of_section defs_of_section].
  - reflexivity.
  - induction l as [|[a b] l IHl]; [reflexivity|]. cbn [List.map flat_map entries_of_def app]. f_equal. exact IHl.
  - induction l as [|[[a b] r] l IHl]; [reflexivity|].
    cbn [List.map flat_map]. rewrite IHl. f_equal. destruct r; reflexivity.
Qed.

Lemma vals_flat_map ds code :
  forallb def_wf ds = true -> bytes_ok code = true ->
  vals (flat_map entries_of_def ds) code = ref_values ds code.
Proof.
  intros Hwf Hcode. unfold ref_values. induction ds as [|d ds IH]; [reflexivity|].
  cbn [forallb] in Hwf. apply andb_true_iff in Hwf. destruct Hwf as [Hd Hds].
  cbn [flat_map List.map]. rewrite vals_app, (def_entries_vals d code Hd Hcode), (IH Hds).
  destruct (def_value d code); reflexivity.
Qed.

(** * main theorem *)
Theorem map_matches_ref secs code :
  forallb def_wf (defs_of secs) = true -> bytes_ok code = true ->
  (length (ref_values (defs_of secs) code) <= 1)%nat ->
  (ref_values (defs_of secs) code <> [] -> in_cs (codespace_of secs) code = true) ->
  map_model (entries_of secs) code = ref_map (codespace_of secs) (defs_of secs) code.
Proof.
  intros Hwf Hcode Hu Hcs.
  rewrite entries_of_defs.
  rewrite map_model_unique; rewrite vals_flat_map by assumption; [|exact Hu].
  unfold ref_map. destruct (ref_values (defs_of secs) code) as [|v [|w l]] eqn:E.
  - destruct (in_cs _ _); reflexivity.
  - rewrite Hcs by discriminate. reflexivity.
  - cbn in Hu. lia.
Qed.

(** overlapping definitions: the result is still the value of one of them *)
Theorem map_is_some_definition secs code v :
  forallb def_wf (defs_of secs) = true -> bytes_ok code = true ->
  map_model (entries_of secs) code = Some v -> In v (ref_values (defs_of secs) code).
Proof.
  intros Hwf Hcode H. apply map_model_in in H.
  rewrite entries_of_defs, vals_flat_map in H by assumption. exact H.
Qed.

(** undefined codes are not mapped *)
Theorem undefined_unmapped secs code :
  forallb def_wf (defs_of secs) = true -> bytes_ok code = true ->
  ref_values (defs_of secs) code = [] -> map_model (entries_of secs) code = None.
Proof.
  intros Hwf Hcode H. rewrite entries_of_defs, map_model_unique; rewrite vals_flat_map by assumption; rewrite H; [reflexivity | cbn; lia].
Qed.

(** * builder round trip *)
Lemma vals_singles l code :
  vals (List.map (fun '(a, b) => Single a b) l) code =
  List.map snd (filter (fun p => bytes_eqb (fst p) code) l).
Proof.
  induction l as [|[a b] l IH]; [reflexivity|].
  cbn [List.map]. rewrite vals_cons. cbn [entry_value filter fst].
  destruct (bytes_eqb a code); cbn [List.map snd]; rewrite IH; reflexivity.
Qed.

Lemma assoc_filter l code :
  assoc code l = hd_error (List.map snd (filter (fun p => bytes_eqb (fst p) code) l)).
Proof.
  induction l as [|[a b] l IH]; [reflexivity|].
  cbn [assoc filter fst]. destruct (bytes_eqb a code); [reflexivity | exact IH].
Qed.

Lemma filter_key_nodup (l : list (bytes * bytes)) code :
  NoDup (List.map fst l) -> (length (filter (fun p => bytes_eqb (fst p) code) l) <= 1)%nat.
Proof.
  induction l as [|[a b] l IH]; intros H; [cbn; lia|].
  cbn [List.map fst] in H. inversion H as [|? ? Hn Hd]; subst.
  cbn [filter fst]. destruct (bytes_eqb a code) eqn:E; [|apply IH; exact Hd].
  apply bytes_eqb_eq in E. subst a.
  assert (filter (fun p => bytes_eqb (fst p) code) l = []) as ->.
  { clear -Hn. induction l as [|[a b] l IH]; [reflexivity|].
    cbn [filter fst]. destruct (bytes_eqb a code) eqn:E.
    - apply bytes_eqb_eq in E. subst a. exfalso. apply Hn. left. reflexivity.
    - apply IH. intros H. apply Hn. right. exact H. }
  cbn. lia.
Qed.

Lemma singles_lookup l code :
  NoDup (List.map fst l) -> map_model (List.map (fun '(a, b) => Single a b) l) code = assoc code l.
Proof.
  intros H. rewrite map_model_unique; rewrite vals_singles.
  - symmetry. apply assoc_filter.
  - rewrite map_length. apply filter_key_nodup. exact H.
Qed.

Lemma insert_sorted_perm x l : Permutation (insert_sorted x l) (x :: l).
Proof.
  induction l as [|y l IH]; [reflexivity|].
  cbn [insert_sorted]. destruct (lex_le (fst x) (fst y)); [reflexivity|].
  rewrite IH. apply perm_swap.
Qed.

Lemma sort_pairs_perm l : Permutation (sort_pairs l) l.
Proof.
  induction l as [|x l IH]; [reflexivity|].
  unfold sort_pairs. cbn [fold_right]. fold (sort_pairs l).
  rewrite insert_sorted_perm. constructor. exact IH.
Qed.

Lemma assoc_in l k v : NoDup (List.map fst l) -> In (k, v) l -> assoc k l = Some v.
Proof.
  induction l as [|[a b] l IH]; intros Hd Hin; [destruct Hin|].
  cbn [List.map fst] in Hd. inversion Hd as [|? ? Hn Hd']; subst.
  cbn [assoc]. destruct Hin as [E|Hin].
  - injection E as -> ->. rewrite bytes_eqb_refl. reflexivity.
  - destruct (bytes_eqb a k) eqn:E.
    + apply bytes_eqb_eq in E. subst a. exfalso. apply Hn. apply in_map_iff. exists (k, v). auto.
    + apply IH; assumption.
Qed.

Lemma assoc_none l k : assoc k l = None -> ~ In k (List.map fst l).
Proof.
  induction l as [|[a b] l IH]; intros H; [intros []|].
  cbn [assoc] in H. destruct (bytes_eqb a k) eqn:E; [discriminate|].
  apply bytes_eqb_neq in E. cbn [List.map fst]. intros [X|X]; [congruence | exact (IH H X)].
Qed.

Lemma assoc_some_in l k v : assoc k l = Some v -> In (k, v) l.
Proof.
  induction l as [|[a b] l IH]; intros H; [discriminate|].
  cbn [assoc] in H. destruct (bytes_eqb a k) eqn:E.
  - apply bytes_eqb_eq in E. injection H as ->. subst. left. reflexivity.
  - right. apply IH. exact H.
Qed.

Lemma assoc_perm l l' k : NoDup (List.map fst l) -> Permutation l l' -> assoc k l = assoc k l'.
Proof.
  intros Hd Hp.
  assert (Hd' : NoDup (List.map fst l')) by (eapply Permutation_NoDup; [apply Permutation_map; exact Hp | exact Hd]).
  destruct (assoc k l) as [v|] eqn:E.
  - symmetry. apply assoc_in; [exact Hd'|]. eapply Permutation_in; [exact Hp|]. apply assoc_some_in. exact E.
  - destruct (assoc k l') as [v|] eqn:E'; [|reflexivity].
    exfalso. apply (assoc_none l k E). apply in_map_iff. exists (k, v). split; [reflexivity|].
    eapply Permutation_in; [symmetry; exact Hp|]. apply assoc_some_in. exact E'.
Qed.

Theorem builder_roundtrip m code :
  NoDup (List.map fst m) -> map_model (builder_entries m) code = assoc code m.
Proof.
  intros Hd. unfold builder_entries.
  pose proof (sort_pairs_perm m) as Hp.
  assert (Hd' : NoDup (List.map fst (sort_pairs m))).
  { eapply Permutation_NoDup; [apply Permutation_map; symmetry; exact Hp | exact Hd]. }
  rewrite singles_lookup by exact Hd'.
  apply assoc_perm; assumption.
Qed.

(** the generated entries are sorted by code (deterministic output whatever the insertion order) *)
Fixpoint sorted_keys (l : list (bytes * bytes)) : Prop :=
  match l with
  | [] => True
  | x :: r => (match r with [] => True | y :: _ => lex_le (fst x) (fst y) = true end) /\ sorted_keys r
  end.

Lemma lex_le_total a b : lex_le a b = false -> lex_le b a = true.
Proof.
  revert b. induction a as [|x a IH]; intros [|y b] H; try discriminate; try reflexivity.
  cbn [lex_le] in *. destruct (x <? y) eqn:E1; [discriminate|].
  destruct (y <? x) eqn:E2; [reflexivity|]. apply IH. exact H.
Qed.

Lemma insert_sorted_sorted x l : sorted_keys l -> sorted_keys (insert_sorted x l).
Proof.
  induction l as [|y l IH]; intros H; [cbn; auto|].
  cbn [insert_sorted]. destruct (lex_le (fst x) (fst y)) eqn:E.
  - cbn [sorted_keys]. split; [exact E | exact H].
  - cbn [sorted_keys] in H. destruct H as [H1 H2]. specialize (IH H2).
    cbn [sorted_keys]. split; [|exact IH].
    destruct l as [|z l]; cbn [insert_sorted].
    + apply lex_le_total. exact E.
    + destruct (lex_le (fst x) (fst z)); [apply lex_le_total; exact E | exact H1].
Qed.

Theorem builder_sorted m : sorted_keys (sort_pairs m).
Proof.
  induction m as [|x m IH]; [exact I|].
  unfold sort_pairs. cbn [fold_right]. apply insert_sorted_sorted. exact IH.
Qed.
