(** C26 — CMaps: code-shaped model of text/cmap.rs ([CMap::parse] at token level, [CMap::map],
    [ToUnicodeCMapBuilder::build] at entry level) and the reference semantics of bfchar / bfrange
    definitions over integer codes. *)
From OxVerif Require Import Base.Util.
Open Scope N_scope.

(** * Input: a CMap as the sequence of its definition blocks *)
Inductive rhs := RHex (d : bytes) | RArr (ds : list bytes).
Inductive section :=
| Codespace (l : list (bytes * bytes))
| BfChar (l : list (bytes * bytes))
| BfRange (l : list (bytes * bytes * rhs)).

(** * Code-shaped model *)
Inductive entry := Single (src dst : bytes) | Range (s e d : bytes).

(** Rust slice ordering: lexicographic, a proper prefix is smaller *)
Fixpoint lex_le (a b : bytes) : bool :=
  match a, b with
  | [], _ => true
  | _ :: _, [] => false
  | x :: a', y :: b' => if x <? y then true else if y <? x then false else lex_le a' b'
  end.

(** [increment_be]: +1 with carry from the last byte; wraps on overflow *)
Fixpoint inc_rev (r : bytes) : bytes :=
  match r with
  | [] => []
  | b :: r' => if b =? 255 then 0 :: inc_rev r' else (b + 1) :: r'
  end.
Definition increment_be (b : bytes) : bytes := rev (inc_rev (rev b)).

(** bfrange array form: one Single per destination, walking the source code *)
Fixpoint expand_array (cur e : bytes) (ds : list bytes) : list entry :=
  match ds with
  | [] => []
  | d :: ds' => Single cur d :: (if lex_le e cur then [] else expand_array (increment_be cur) e ds')
  end.

Definition entries_of_range (x : bytes * bytes * rhs) : list entry :=
  let '(s, e, r) := x in
  match r with
  | RHex d => [Range s e d]
  | RArr ds => expand_array s e ds
  end.

Definition entries_of_section (s : section) : list entry :=
  match s with
  | Codespace _ => []
  | BfChar l => List.map (fun '(a, b) => Single a b) l
  | BfRange l => flat_map entries_of_range l
  end.
Definition entries_of (c : list section) : list entry := flat_map entries_of_section c.

Definition codespace_of_section (s : section) : list (bytes * bytes) :=
  match s with Codespace l => l | _ => [] end.
Definition codespace_of (c : list section) : list (bytes * bytes) := flat_map codespace_of_section c.

(** big-endian value ([calculate_offset] folds both sides to an integer; usize is not exceeded
    for codes of at most 8 bytes, which the generators respect) *)
Definition be (b : bytes) : N := fold_left (fun a x => a * 256 + x) b 0.

(** destination + offset with carry from the last byte, stopping when the carry is 0 *)
Fixpoint add_rev (r : bytes) (carry : N) : bytes :=
  match r with
  | [] => []
  | b :: r' => let s := b + carry in
               (s mod 256) :: (if s / 256 =? 0 then r' else add_rev r' (s / 256))
  end.
Definition add_carry (d : bytes) (n : N) : bytes := rev (add_rev (rev d) n).

Definition entry_value (e : entry) (code : bytes) : option bytes :=
  match e with
  | Single src dst => if bytes_eqb src code then Some dst else None
  | Range s e d =>
      if (N.of_nat (length code) =? N.of_nat (length s)) && lex_le s code && lex_le code e
      then Some (add_carry d (be code - be s)) else None
  end.

(** the HashMap of singles: a later insert replaces an earlier one *)
Fixpoint last_single (code : bytes) (es : list entry) (acc : option bytes) : option bytes :=
  match es with
  | [] => acc
  | Single src dst :: r => last_single code r (if bytes_eqb src code then Some dst else acc)
  | Range _ _ _ :: r => last_single code r acc
  end.

Fixpoint first_range (code : bytes) (es : list entry) : option bytes :=
  match es with
  | [] => None
  | Single _ _ :: r => first_range code r
  | (Range _ _ _ as e) :: r =>
      match entry_value e code with Some v => Some v | None => first_range code r end
  end.

(** [CMap::map] for a ToUnicode CMap without [usecmap] *)
Definition map_model (es : list entry) (code : bytes) : option bytes :=
  match last_single code es None with
  | Some d => Some d
  | None => first_range code es
  end.

(** [CodeRange::contains] / [is_valid_code] *)
Definition in_cs (cs : list (bytes * bytes)) (code : bytes) : bool :=
  existsb (fun '(s, e) =>
    (N.of_nat (length code) =? N.of_nat (length s)) && (N.of_nat (length code) =? N.of_nat (length e))
    && lex_le s code && lex_le code e) cs.

(** * Reference semantics: definitions over integer codes of a given byte length *)
Fixpoint to_be (len : nat) (v : N) : bytes :=
  match len with
  | O => []
  | S l => to_be l (v / 256) ++ [v mod 256]
  end.

Definition same_len (a b : bytes) : bool := N.of_nat (length a) =? N.of_nat (length b).

(** destination string + n: the last byte is incremented; a carry propagates into the bytes
    before it (what every implementation does when a range crosses xxFF) *)
Definition be_add (d : bytes) (n : N) : bytes := to_be (length d) ((be d + n) mod (256 ^ N.of_nat (length d))).

Inductive def := DChar (src dst : bytes) | DRange (lo hi dst : bytes) | DArr (lo hi : bytes) (ds : list bytes).

Definition in_range (lo hi code : bytes) : bool :=
  same_len code lo && same_len code hi && (be lo <=? be code) && (be code <=? be hi).

Definition def_value (d : def) (code : bytes) : option bytes :=
  match d with
  | DChar src dst => if bytes_eqb src code then Some dst else None
  | DRange lo hi dst => if in_range lo hi code then Some (be_add dst (be code - be lo)) else None
  | DArr lo hi ds => if in_range lo hi code then nth_error ds (N.to_nat (be code - be lo)) else None
  end.

Definition defs_of_section (s : section) : list def :=
  match s with
  | Codespace _ => []
  | BfChar l => List.map (fun '(a, b) => DChar a b) l
  | BfRange l => List.map (fun '(s, e, r) => match r with RHex d => DRange s e d | RArr ds => DArr s e ds end) l
  end.
Definition defs_of (c : list section) : list def := flat_map defs_of_section c.

Fixpoint filter_some {A} (l : list (option A)) : list A :=
  match l with
  | [] => []
  | Some x :: r => x :: filter_some r
  | None :: r => filter_some r
  end.

(** all values the definitions give to a code, in definition order *)
Definition ref_values (ds : list def) (code : bytes) : list bytes :=
  filter_some (List.map (fun d => def_value d code) ds).

(** the reference mapping: codes outside the code space are rejected; otherwise the value some
    definition gives (the last one when several definitions overlap) *)
Definition ref_map (cs : list (bytes * bytes)) (ds : list def) (code : bytes) : option bytes :=
  if in_cs cs code then last (List.map Some (ref_values ds code)) None else None.

(** well-formed range definitions: both ends have the same length and lo <= hi *)
Definition def_wf (d : def) : bool :=
  match d with
  | DChar src _ => bytes_ok src
  | DRange lo hi dst => same_len lo hi && (be lo <=? be hi) && bytes_ok lo && bytes_ok hi && bytes_ok dst
  | DArr lo hi _ => same_len lo hi && (be lo <=? be hi) && bytes_ok lo && bytes_ok hi
  end.

(** * ToUnicodeCMapBuilder at entry level: sorted bfchar entries *)
Fixpoint insert_sorted (x : bytes * bytes) (l : list (bytes * bytes)) : list (bytes * bytes) :=
  match l with
  | [] => [x]
  | y :: r => if lex_le (fst x) (fst y) then x :: l else y :: insert_sorted x r
  end.
Definition sort_pairs (l : list (bytes * bytes)) : list (bytes * bytes) := fold_right insert_sorted [] l.

Fixpoint assoc (k : bytes) (l : list (bytes * bytes)) : option bytes :=
  match l with
  | [] => None
  | (a, b) :: r => if bytes_eqb a k then Some b else assoc k r
  end.

Definition builder_entries (m : list (bytes * bytes)) : list entry :=
  List.map (fun '(a, b) => Single a b) (sort_pairs m).

(** * Correspondence cases *)
Definition entry_eqb (a b : entry) : bool :=
  match a, b with
  | Single s d, Single s' d' => bytes_eqb s s' && bytes_eqb d d'
  | Range s e d, Range s' e' d' => bytes_eqb s s' && bytes_eqb e e' && bytes_eqb d d'
  | _, _ => false
  end.

Definition obytes_eqb := option_eqb bytes_eqb.

(** parse/map case: the CMap, the entries and code space the implementation parsed, and probe
    codes with the implementation's [map] result and [is_valid_code].
    bit 1: model differs (parsed entries, code space, a probe result)
    bit 2: a probe result is not what the CMap defines:
           - outside the code space it must be rejected (None),
           - inside, with exactly one defining value: that value,
           - inside, with several overlapping definitions: one of their values (the CMap is
             ambiguous there; nothing more is demanded),
           - inside, undefined: None.
    Malformed CMaps (a range with ends of different length or lo > hi) define nothing the
    property could be judged against: only bit 1 applies to them.
    bit 4 (with 2): every failing probe is an explicitly defined code outside the code space that
           was accepted (the recorded #302 behaviour). *)
Definition probe := (bytes * option bytes * bool)%type.

Definition probe_model_ok (cs : list (bytes * bytes)) (es : list entry) (p : probe) : bool :=
  let '(code, r, valid) := p in
  obytes_eqb (map_model es code) r && Bool.eqb (in_cs cs code) valid.

Definition probe_prop_ok (cs : list (bytes * bytes)) (ds : list def) (p : probe) : bool :=
  let '(code, r, _) := p in
  if in_cs cs code then
    match ref_values ds code with
    | [] => obytes_eqb r None
    | [v] => obytes_eqb r (Some v)
    | vs => match r with Some x => existsb (bytes_eqb x) vs | None => false end
    end
  else obytes_eqb r None.

Definition probe_is_302 (cs : list (bytes * bytes)) (ds : list def) (p : probe) : bool :=
  let '(code, r, _) := p in
  negb (in_cs cs code) &&
  match r, ref_values ds code with
  | Some x, (_ :: _) as vs => existsb (bytes_eqb x) vs
  | _, _ => false
  end.

Definition parse_code (c : list section * list entry * list (bytes * bytes) * list probe) : N :=
  let '(secs, impl_es, impl_cs, probes) := c in
  let es := entries_of secs in
  let cs := codespace_of secs in
  let ds := defs_of secs in
  let m_ok := list_eqb entry_eqb es impl_es
              && list_eqb (fun a b => bytes_eqb (fst a) (fst b) && bytes_eqb (snd a) (snd b)) cs impl_cs
              && forallb (probe_model_ok cs es) probes in
  let bad := filter (fun p => negb (probe_prop_ok cs ds p)) probes in
  let p_ok := match bad with [] => true | _ => negb (forallb def_wf ds) end in
  code_of m_ok p_ok + (if negb p_ok && forallb (probe_is_302 cs ds) bad then 4 else 0).

(** builder case: the mapping given to the builder (unique keys), the entries the implementation
    parsed back from the built text, probes (code, map result).
    bit 1: parsed-back entries differ from [builder_entries]; bit 2: some probe does not read
    back exactly the mapping it was generated from. *)
Definition builder_code (c : list (bytes * bytes) * list entry * list (bytes * option bytes)) : N :=
  let '(m, impl_es, probes) := c in
  code_of (list_eqb entry_eqb (builder_entries m) impl_es)
          (forallb (fun '(code, r) => obytes_eqb r (assoc code m)) probes).
