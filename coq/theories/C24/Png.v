(** C24 — reference semantics, written from the standards and not from the code:
    - PNG (ISO/IEC 15948:2004): IHDR validity (Table 11.1), scanline layout (7.2), filter
      reconstruction (9.2-9.4), sample unpacking, PLTE / tRNS (11.2.3, 11.3.2.1), Adam7 (8.2);
    - PDF image XObjects (ISO 32000-1 8.9.5): sample layout, /ColorSpace + /BitsPerComponent, /SMask.
    zlib inflate is NOT part of this file: the decoders take the inflated IDAT stream. *)
From OxVerif Require Import Base.Util.

Definition bnth (l : bytes) (i : N) : N := nth (N.to_nat i) l 0.
Definition lenN {A} (l : list A) : N := N.of_nat (length l).
Definition be16 (a b : N) : N := a * 256 + b.
Definition be32 (a b c d : N) : N := ((a * 256 + b) * 256 + c) * 256 + d.

(** * Pixels.  Components and alpha are fractions num/max so that images of different sample depth can
    be compared (PNG sample s at depth d and PDF sample s' at bpc b denote s/(2^d-1) and s'/(2^b-1)). *)
Record pixel := mkPx { p_c : list N; p_cmax : N; p_a : N; p_amax : N }.
Definition opaque (c : list N) (m : N) : pixel := mkPx c m 1 1.

Definition norm_comps (c : list N) : list N := match c with [g] => [g; g; g] | _ => c end.  (* DeviceGray g = RGB (g,g,g) *)
Definition frac_eqb (a ma b mb : N) : bool := (a * mb =? b * ma) && negb (ma =? 0) && negb (mb =? 0).
Definition pixel_eqb (p q : pixel) : bool :=
  let c1 := norm_comps (p_c p) in let c2 := norm_comps (p_c q) in
  (Nat.eqb (length c1) (length c2)) &&
  forallb (fun '(a, b) => frac_eqb a (p_cmax p) b (p_cmax q)) (combine c1 c2) &&
  frac_eqb (p_a p) (p_amax p) (p_a q) (p_amax q).
Definition pixels_eqb (a b : list pixel) : bool := list_eqb pixel_eqb a b.

(** * Sample packing shared by PNG scanlines and PDF image rows: samples of [d] bits, most significant
    bits first, rows padded to a byte boundary; 16-bit samples big-endian. *)
Definition sample_at (d : N) (row : bytes) (k : N) : N :=
  if d =? 8 then bnth row k
  else if d =? 16 then be16 (bnth row (2 * k)) (bnth row (2 * k + 1))
  else let per := 8 / d in
       let byte := bnth row (k / per) in
       let shift := 8 - d * (k mod per + 1) in
       (byte / 2 ^ shift) mod 2 ^ d.
Definition unpack (d : N) (n : nat) (row : bytes) : list N :=
  map (fun k => sample_at d row (N.of_nat k)) (seq 0 n).
Definition row_bytes (samples_per_row d : N) : N := (samples_per_row * d + 7) / 8.

(** [take_rows h rb data]: the first h rows of rb bytes each; None when data is too short *)
Fixpoint take_rows (h : nat) (rb : nat) (data : bytes) : option (list bytes) :=
  match h with
  | O => Some []
  | S k => if Nat.ltb (length data) rb then None
           else match take_rows k rb (skipn rb data) with
                | Some r => Some (firstn rb data :: r)
                | None => None
                end
  end.

Fixpoint group {A} (n : nat) (fuel : nat) (l : list A) : list (list A) :=
  match fuel with
  | O => []
  | S f => match l with [] => [] | _ => firstn n l :: group n f (skipn n l) end
  end.
Definition groups {A} (n : nat) (l : list A) : list (list A) := group n (length l) l.

(** * PNG *)
Record ihdr := mkIhdr { i_w : N; i_h : N; i_bd : N; i_ct : N; i_comp : N; i_filt : N; i_il : N }.

Definition parse_ihdr (d : bytes) : option ihdr :=
  match d with
  | [w0; w1; w2; w3; h0; h1; h2; h3; bd; ct; cm; fm; il] =>
      Some (mkIhdr (be32 w0 w1 w2 w3) (be32 h0 h1 h2 h3) bd ct cm fm il)
  | _ => None
  end.

(** Table 11.1: allowed combinations of colour type and bit depth *)
Definition depth_ok (ct bd : N) : bool :=
  match ct with
  | 0 => (bd =? 1) || (bd =? 2) || (bd =? 4) || (bd =? 8) || (bd =? 16)
  | 3 => (bd =? 1) || (bd =? 2) || (bd =? 4) || (bd =? 8)
  | 2 | 4 | 6 => (bd =? 8) || (bd =? 16)
  | _ => false
  end.
Definition ihdr_ok (i : ihdr) : bool :=
  (0 <? i_w i) && (i_w i <? 2147483648) && (0 <? i_h i) && (i_h i <? 2147483648) &&
  depth_ok (i_ct i) (i_bd i) && (i_comp i =? 0) && (i_filt i =? 0) && (i_il i <? 2).

Definition png_channels (ct : N) : N :=
  match ct with 0 => 1 | 2 => 3 | 3 => 1 | 4 => 2 | 6 => 4 | _ => 0 end.
(** 9.2: bpp = bytes per complete pixel, rounding up to 1 *)
Definition png_bpp (ct bd : N) : N := N.max 1 (png_channels ct * bd / 8).

(** 9.4 *)
Definition paeth_predictor (a b c : N) : N :=
  let p := (Z.of_N a + Z.of_N b - Z.of_N c)%Z in
  let pa := Z.abs (p - Z.of_N a) in
  let pb := Z.abs (p - Z.of_N b) in
  let pc := Z.abs (p - Z.of_N c) in
  if (pa <=? pb)%Z && (pa <=? pc)%Z then a else if (pb <=? pc)%Z then b else c.

(** 9.2 Table 9.1, reconstruction functions.  [done_rev] = bytes of this scanline reconstructed so far,
    most recent first: the byte bpp positions back (Recon(a)) is its element number bpp-1, and is 0 when
    there are fewer than bpp bytes.  [prior] = the reconstructed previous scanline (all 0 for the first). *)
Definition recon_byte (ft bpp : N) (prior done_rev : bytes) (i x : N) : option N :=
  let a := bnth done_rev (bpp - 1) in
  let b := bnth prior i in
  let c := if i <? bpp then 0 else bnth prior (i - bpp) in
  match ft with
  | 0 => Some x
  | 1 => Some ((x + a) mod 256)
  | 2 => Some ((x + b) mod 256)
  | 3 => Some ((x + (a + b) / 2) mod 256)
  | 4 => Some ((x + paeth_predictor a b c) mod 256)
  | _ => None
  end.
Fixpoint recon_from (ft bpp : N) (prior : bytes) (filt done_rev : bytes) (i : N) : option bytes :=
  match filt with
  | [] => Some (rev done_rev)
  | x :: r => match recon_byte ft bpp prior done_rev i x with
              | Some y => recon_from ft bpp prior r (y :: done_rev) (i + 1)
              | None => None
              end
  end.
(** 9.2: filter types 0..4 only; any other value makes the datastream invalid *)
Definition recon_row (ft bpp : N) (prior filt : bytes) : option bytes :=
  if 4 <? ft then None else recon_from ft bpp prior filt [] 0.

(** h scanlines of 1 + rb bytes *)
Fixpoint recon_rows (h rb : nat) (bpp : N) (data prior : bytes) : option (list bytes) :=
  match h with
  | O => Some []
  | S k =>
      match data with
      | [] => None
      | ft :: rest =>
          if Nat.ltb (length rest) rb then None
          else match recon_row ft bpp prior (firstn rb rest) with
               | None => None
               | Some cur => match recon_rows k rb bpp (skipn rb rest) cur with
                             | Some r => Some (cur :: r)
                             | None => None
                             end
               end
      end
  end.

(** pixel from the samples of one pixel *)
Definition trns_gray (t : option bytes) (bd : N) : option N :=
  match t with Some (a :: b :: _) => Some (be16 a b mod 2 ^ bd) | _ => None end.
Definition trns_rgb (t : option bytes) (bd : N) : option (N * N * N) :=
  match t with
  | Some (a :: b :: c :: d :: e :: f :: _) => Some (be16 a b mod 2 ^ bd, be16 c d mod 2 ^ bd, be16 e f mod 2 ^ bd)
  | _ => None
  end.
Definition nth_triple (p : bytes) (i : N) : list N := [bnth p (3 * i); bnth p (3 * i + 1); bnth p (3 * i + 2)].

Definition png_pixel (ct bd : N) (plte trns : option bytes) (s : list N) : option pixel :=
  let m := 2 ^ bd - 1 in
  match ct, s with
  | 0, [g] => Some (match trns_gray trns bd with
                    | Some t => mkPx [g] m (if g =? t then 0 else 1) 1
                    | None => opaque [g] m end)
  | 2, [r; g; b] => Some (match trns_rgb trns bd with
                          | Some (tr, tg, tb) => mkPx [r; g; b] m (if (r =? tr) && (g =? tg) && (b =? tb) then 0 else 1) 1
                          | None => opaque [r; g; b] m end)
  | 3, [i] => match plte with
              | Some p => if (3 * i + 2 <? lenN p) && (lenN p mod 3 =? 0) && (lenN p <=? 768) then
                            Some (match trns with
                                  | Some t => mkPx (nth_triple p i) 255 (if i <? lenN t then bnth t i else 255) 255
                                  | None => opaque (nth_triple p i) 255 end)
                          else None
              | None => None
              end
  | 4, [g; a] => Some (mkPx [g] m a m)
  | 6, [r; g; b; a] => Some (mkPx [r; g; b] m a m)
  | _, _ => None
  end.

Fixpoint sequence {A} (l : list (option A)) : option (list A) :=
  match l with
  | [] => Some []
  | None :: _ => None
  | Some x :: r => match sequence r with Some r' => Some (x :: r') | None => None end
  end.

Definition row_pixels (ct bd : N) (plte trns : option bytes) (w : nat) (row : bytes) : option (list pixel) :=
  let ch := N.to_nat (png_channels ct) in
  sequence (map (png_pixel ct bd plte trns) (groups ch (unpack bd (w * ch) row))).

(** a (sub-)image of w x h pixels stored as h filtered scanlines at the start of [data];
    returns its pixels in row-major order and the number of bytes it occupied *)
Definition png_subimage (ct bd : N) (plte trns : option bytes) (w h : nat) (data : bytes)
  : option (list pixel * nat) :=
  let rb := N.to_nat (row_bytes (N.of_nat w * png_channels ct) bd) in
  match recon_rows h rb (png_bpp ct bd) data (repeat 0 rb) with
  | None => None
  | Some rows => match sequence (map (row_pixels ct bd plte trns w) rows) with
                 | Some pr => Some (concat pr, (h * S rb)%nat)
                 | None => None
                 end
  end.

(** 8.2 Adam7: (x start, y start, x step, y step) of the seven passes *)
Definition adam7 : list (N * N * N * N) :=
  [(0,0,8,8); (4,0,8,8); (0,4,4,8); (2,0,4,4); (0,2,2,4); (1,0,2,2); (0,1,1,2)].
Definition pass_dim (n s d : N) : N := if n <=? s then 0 else (n - s + d - 1) / d.

Fixpoint adam7_passes (ct bd : N) (plte trns : option bytes) (w h : N) (ps : list (N * N * N * N)) (data : bytes)
  : option (list (list pixel)) :=
  match ps with
  | [] => Some []
  | (xs, ys, dx, dy) :: r =>
      let pw := pass_dim w xs dx in let ph := pass_dim h ys dy in
      if (pw =? 0) || (ph =? 0) then        (* empty passes are absent from the stream *)
        match adam7_passes ct bd plte trns w h r data with Some t => Some ([] :: t) | None => None end
      else match png_subimage ct bd plte trns (N.to_nat pw) (N.to_nat ph) data with
           | None => None
           | Some (px, used) =>
               match adam7_passes ct bd plte trns w h r (skipn used data) with
               | Some t => Some (px :: t) | None => None end
           end
  end.

Definition dummy_px := opaque [] 0.
Fixpoint adam7_lookup (w x y : N) (ps : list (N * N * N * N)) (pix : list (list pixel)) : pixel :=
  match ps, pix with
  | (xs, ys, dx, dy) :: r, p :: pr =>
      if (xs <=? x) && (ys <=? y) && ((x - xs) mod dx =? 0) && ((y - ys) mod dy =? 0)
      then nth (N.to_nat (((y - ys) / dy) * pass_dim w xs dx + (x - xs) / dx)) p dummy_px
      else adam7_lookup w x y r pr
  | _, _ => dummy_px
  end.
Definition adam7_image (w h : N) (pix : list (list pixel)) : list pixel :=
  flat_map (fun y => map (fun x => adam7_lookup w (N.of_nat x) (N.of_nat y) adam7 pix) (seq 0 (N.to_nat w)))
           (seq 0 (N.to_nat h)).

(** the reference decoder: IHDR data, PLTE data, tRNS data, inflated IDAT stream -> pixels, row-major *)
Definition spec_pixels (ihdr_data : bytes) (plte trns : option bytes) (raw : bytes) : option (list pixel) :=
  match parse_ihdr ihdr_data with
  | None => None
  | Some i =>
      if negb (ihdr_ok i) then None
      else if (i_ct i =? 3) && match plte with None => true | Some _ => false end then None
      else if i_il i =? 0 then
        match png_subimage (i_ct i) (i_bd i) plte trns (N.to_nat (i_w i)) (N.to_nat (i_h i)) raw with
        | Some (px, _) => Some px
        | None => None
        end
      else
        match adam7_passes (i_ct i) (i_bd i) plte trns (i_w i) (i_h i) adam7 raw with
        | Some pix => Some (adam7_image (i_w i) (i_h i) pix)
        | None => None
        end
  end.

(** * PDF image XObject semantics (ISO 32000-1 8.9.5.1, 8.9.5.2, 11.6.5.3) *)
Record smask := mkM { m_w : Z; m_h : Z; m_cs : N; m_bpc : Z; m_plain : bool; m_data : bytes }.
Record xobj := mkX { x_w : Z; x_h : Z; x_cs : N;   (* 1 DeviceGray, 3 DeviceRGB, 4 DeviceCMYK, 0 other *)
                     x_bpc : Z; x_plain : bool;   (* no /Decode, /Mask, /ImageMask, /Matte *)
                     x_data : bytes;              (* stream data after its filters *)
                     x_smask : option smask }.

Definition bpc_ok (b : Z) : bool := ((b =? 1) || (b =? 2) || (b =? 4) || (b =? 8) || (b =? 16))%Z.

(** all samples of an image: h rows of ceil(w*nc*bpc/8) bytes, row-major *)
Definition image_samples (w h nc bpc : N) (data : bytes) : option (list N) :=
  let n := w * nc in
  match take_rows (N.to_nat h) (N.to_nat (row_bytes n bpc)) data with
  | None => None
  | Some rows => Some (flat_map (unpack bpc (N.to_nat n)) rows)
  end.

Definition zip_pixels (nc : nat) (m : N) (cs : list N) (alpha : option (list N * N)) : list pixel :=
  match alpha with
  | None => map (fun c => opaque c m) (groups nc cs)
  | Some (al, am) => map (fun '(c, a) => mkPx c m a am) (combine (groups nc cs) al)
  end.

Definition xobj_pixels (x : xobj) : option (list pixel) :=
  if negb (x_plain x && bpc_ok (x_bpc x) && (0 <? x_w x)%Z && (0 <? x_h x)%Z && ((x_cs x =? 1) || (x_cs x =? 3) || (x_cs x =? 4)))
  then None else
  let w := Z.to_N (x_w x) in let h := Z.to_N (x_h x) in let b := Z.to_N (x_bpc x) in
  match image_samples w h (x_cs x) b (x_data x) with
  | None => None
  | Some cs =>
      match x_smask x with
      | None => Some (zip_pixels (N.to_nat (x_cs x)) (2 ^ b - 1) cs None)
      | Some m =>
          (* a soft-mask image of other dimensions would be resampled: outside this semantics *)
          if negb (m_plain m && bpc_ok (m_bpc m) && (m_w m =? x_w x)%Z && (m_h m =? x_h x)%Z && (m_cs m =? 1)) then None
          else match image_samples w h 1 (Z.to_N (m_bpc m)) (m_data m) with
               | None => None
               | Some al => Some (zip_pixels (N.to_nat (x_cs x)) (2 ^ b - 1) cs (Some (al, 2 ^ Z.to_N (m_bpc m) - 1)))
               end
      end
  end.
