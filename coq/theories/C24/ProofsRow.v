(** C24 — the code-shaped unfilter loops compute the reconstruction functions of the PNG standard,
    byte by byte (loop invariant: the vector filled so far is the reversed spec accumulator), row by row. *)
From OxVerif Require Import Base.Util C07.Filters C07.Predictor C24.Png C24.Model.
Require Import Lia ZifyBool.

Lemma len_snoc (acc : bytes) y : len (acc ++ [y]) = len acc + 1.
Proof. unfold len. rewrite app_length. cbn [length]. lia. Qed.

(** Recon(a): element bpp-1 of the reversed accumulator = `result[i - bpp]` guarded by `i >= bpp` *)
Lemma left_rev bpp (acc : bytes) : 1 <= bpp -> bnth (rev acc) (bpp - 1) = m_left bpp (len acc) acc.
Proof.
  intros Hb. unfold bnth, m_left, nth0, len.
  destruct (bpp <=? N.of_nat (length acc)) eqn:E.
  - rewrite rev_nth by lia. f_equal. lia.
  - apply nth_overflow. rewrite rev_length. lia.
Qed.

Lemma paeth_same a b c : paeth a b c = paeth_predictor a b c.
Proof. reflexivity. Qed.

Lemma loop_inv ft bpp prior g :
  (forall acc x, recon_byte ft bpp prior (rev acc) (len acc) x = Some (g (len acc) acc x)) ->
  forall filt acc, recon_from ft bpp prior filt (rev acc) (len acc) = Some (row_loop g filt acc (len acc)).
Proof.
  intros Hg. induction filt as [|x r IH]; intros acc; cbn [recon_from row_loop].
  - rewrite rev_involutive. reflexivity.
  - rewrite Hg. set (y := g (len acc) acc x). rewrite <- (len_snoc acc y).
    replace (y :: rev acc) with (rev (acc ++ [y])) by apply rev_unit. apply IH.
Qed.

Lemma recon_none_filter bpp prior : forall filt done_rev i,
  recon_from 0 bpp prior filt done_rev i = Some (rev done_rev ++ filt).
Proof.
  induction filt as [|x r IH]; intros; cbn [recon_from recon_byte].
  - rewrite app_nil_r. reflexivity.
  - rewrite IH. cbn [rev]. rewrite <- app_assoc. reflexivity.
Qed.

(** unfilter_row = the standard's reconstruction, for every filter-type byte and every row *)
Theorem unfilter_row_is_recon ft bpp prev row : 1 <= bpp ->
  m_unfilter_row ft row prev bpp = recon_row ft bpp prev row.
Proof.
  intros Hb. unfold recon_row.
  destruct (4 <? ft) eqn:E4.
  - unfold m_unfilter_row.
    destruct ft as [|p]; [discriminate|].
    do 3 (destruct p as [p|p|]; try discriminate; try reflexivity).
  - assert (T : ft = 0 \/ ft = 1 \/ ft = 2 \/ ft = 3 \/ ft = 4) by lia.
    destruct T as [-> | [-> | [-> | [-> | ->]]]]; cbn [m_unfilter_row].
    + rewrite recon_none_filter. reflexivity.
    + symmetry. apply (loop_inv 1 bpp prev (m_sub_g bpp)) with (acc := []).
      intros acc x. cbn [recon_byte]. rewrite left_rev by exact Hb. reflexivity.
    + symmetry. apply (loop_inv 2 bpp prev (m_up_g prev)) with (acc := []).
      intros acc x. reflexivity.
    + symmetry. apply (loop_inv 3 bpp prev (m_avg_g bpp prev)) with (acc := []).
      intros acc x. cbn [recon_byte]. rewrite left_rev by exact Hb.
      unfold m_avg_g, wadd. unfold nth0, bnth.
      rewrite N.add_mod_idemp_r by discriminate. reflexivity.
    + symmetry. apply (loop_inv 4 bpp prev (m_paeth_g bpp prev)) with (acc := []).
      intros acc x. cbn [recon_byte]. rewrite left_rev by exact Hb.
      unfold m_paeth_g, wadd. unfold nth0, bnth.
      destruct (len acc <? bpp) eqn:E1; destruct (bpp <=? len acc) eqn:E2; try lia; reflexivity.
Qed.

(** reconstructed rows keep their length *)
Lemma recon_from_length ft bpp prior : forall filt done_rev i out,
  recon_from ft bpp prior filt done_rev i = Some out -> length out = (length done_rev + length filt)%nat.
Proof.
  induction filt as [|x r IH]; intros done_rev i out H; cbn [recon_from] in H.
  - injection H as <-. rewrite rev_length. cbn. lia.
  - destruct (recon_byte ft bpp prior done_rev i x); [|discriminate].
    apply IH in H. cbn [length] in *. lia.
Qed.
Lemma recon_row_length ft bpp prior filt out : recon_row ft bpp prior filt = Some out -> length out = length filt.
Proof.
  unfold recon_row. destruct (4 <? ft); [discriminate|]. intros H. apply recon_from_length in H. exact H.
Qed.

(** shape of a successfully reconstructed image *)
Lemma recon_rows_shape rb bpp : forall h data prior rows,
  recon_rows h rb bpp data prior = Some rows ->
  (h * S rb <= length data)%nat /\ length rows = h /\ Forall (fun r => length r = rb) rows.
Proof.
  induction h as [|k IH]; intros data prior rows H; cbn [recon_rows] in H.
  - injection H as <-. cbn. repeat split; [lia | constructor].
  - destruct data as [|ft rest]; [discriminate|].
    destruct (Nat.ltb (length rest) rb) eqn:El; [discriminate|]. apply Nat.ltb_ge in El.
    destruct (recon_row ft bpp prior (firstn rb rest)) as [cur|] eqn:Er; [|discriminate].
    destruct (recon_rows k rb bpp (skipn rb rest) cur) as [r|] eqn:Ek; [|discriminate].
    injection H as <-. apply IH in Ek. destruct Ek as (L & N & F).
    rewrite skipn_length in L. apply recon_row_length in Er. rewrite firstn_length in Er.
    cbn [length]. repeat split.
    + rewrite Nat.mul_succ_l. lia.
    + lia.
    + constructor; [lia | exact F].
Qed.

(** the row loop of decode_image_data: when the data is long enough it is the standard's row loop *)
Theorem m_rows_is_recon rb bpp : 1 <= bpp -> forall h raw prev,
  (h * S rb <= length raw)%nat ->
  m_rows h (S rb) bpp raw prev =
  match recon_rows h rb bpp raw prev with Some rows => Some (concat rows) | None => None end.
Proof.
  intros Hb. induction h as [|k IH]; intros raw prev Hl; cbn [m_rows recon_rows].
  - reflexivity.
  - rewrite Nat.mul_succ_l in Hl.
    destruct raw as [|ft rest]; [cbn in Hl; lia|]. cbn [length] in Hl.
    replace (Nat.ltb (length rest) rb) with false by (symmetry; apply Nat.ltb_ge; lia).
    change (nth0 (ft :: rest) 0) with ft. cbn [skipn]. replace (S rb - 1)%nat with rb by lia.
    rewrite unfilter_row_is_recon by exact Hb.
    destruct (recon_row ft bpp prev (firstn rb rest)) as [cur|]; [|reflexivity].
    rewrite IH by (rewrite skipn_length; lia).
    destruct (recon_rows k rb bpp (skipn rb rest) cur); reflexivity.
Qed.
