(** C24 — link with the C07 package: on byte rows, C24's unfilter_row is C07's png_row with a present
    previous row, so the C07 theorem `png_row_roundtrip` applies: the reconstruction functions of Png.v
    (and the decoder model) invert the forward filters of the PNG standard as specified in C07/Codecs.v.
    This validates Png.v's reconstruction against an independently written forward specification. *)
From OxVerif Require Import Base.Util C07.Filters C07.Predictor C07.Codecs C07.ProofsBasic C07.ProofsPredictor.
From OxVerif Require Import C24.Png C24.Model C24.ProofsRow.
Require Import Lia ZifyBool.

Lemma row_loop_ext g1 g2 : (forall i acc b, b < 256 -> g1 i acc b = g2 i acc b) ->
  forall data acc i, bytes_ok data = true -> row_loop g1 data acc i = row_loop g2 data acc i.
Proof.
  intros H. induction data as [|b r IH]; intros acc i Hok; cbn [row_loop]; [reflexivity|].
  cbn [bytes_ok forallb] in Hok. apply andb_true_iff in Hok. destruct Hok as [Hb Hr]. unfold byte_ok in Hb.
  rewrite H by lia. apply IH. exact Hr.
Qed.

Lemma wadd0 b : b < 256 -> wadd b 0 = b.
Proof. intros. unfold wadd. rewrite N.add_0_r. apply N.mod_small. assumption. Qed.

Lemma m_unfilter_is_c07 ft bpp prev row : bytes_ok row = true ->
  m_unfilter_row ft row prev bpp = png_row ft bpp (Some prev) row.
Proof.
  intros Hok. unfold m_unfilter_row, png_row.
  destruct ft as [|[[[|[]|]|[]|]|[[]|[]|]|]]; try reflexivity; f_equal; apply row_loop_ext; try exact Hok;
    intros i acc b Hb;
    unfold m_sub_g, sub_g, m_avg_g, avg_g, m_paeth_g, paeth_g, m_up_g, up_g, m_left, up_at;
    destruct (i <? bpp) eqn:E1; destruct (bpp <=? i) eqn:E2; try lia; try reflexivity; apply wadd0; exact Hb.
Qed.

Lemma filter_from_ok tag bpp orig prior : forall todo i, bytes_ok (png_filter_from tag bpp orig prior todo i) = true.
Proof.
  induction todo as [|x r IH]; intros i; cbn [png_filter_from]; [reflexivity|].
  cbn [bytes_ok forallb]. apply andb_true_iff. split; [|apply IH].
  unfold byte_ok. apply N.ltb_lt. apply N.mod_lt. discriminate.
Qed.

(** the decoder model inverts the standard's forward filters on every row *)
Theorem unfilter_inverts_forward tag bpp prior orig :
  tag < 5 -> 1 <= bpp -> bytes_ok orig = true -> bytes_ok prior = true ->
  m_unfilter_row tag (png_filter_from tag bpp orig prior orig 0) prior bpp = Some orig.
Proof.
  intros Ht Hb Ho Hp. rewrite m_unfilter_is_c07 by apply filter_from_ok.
  apply png_row_roundtrip; try assumption. reflexivity.
Qed.

(** ... and so does the reference reconstruction of Png.v *)
Theorem recon_inverts_forward tag bpp prior orig :
  tag < 5 -> 1 <= bpp -> bytes_ok orig = true -> bytes_ok prior = true ->
  recon_row tag bpp prior (png_filter_from tag bpp orig prior orig 0) = Some orig.
Proof.
  intros Ht Hb Ho Hp. rewrite <- unfilter_row_is_recon by exact Hb. apply unfilter_inverts_forward; assumption.
Qed.

Example recon_inverts_forward_nonvacuous :
  recon_row 4 3 [9; 8; 7; 250; 0; 3] (png_filter_from 4 3 [1; 255; 3; 4; 5; 200] [9; 8; 7; 250; 0; 3] [1; 255; 3; 4; 5; 200] 0)
  = Some [1; 255; 3; 4; 5; 200].
Proof. vm_compute. reflexivity. Qed.
