(** C24 — sample layout lemmas: 8-bit rows are their own samples, grouping of concatenations,
    separate_alpha against pixel grouping, PDF image rows at 8 bits per component. *)
From OxVerif Require Import Base.Util C24.Png C24.Model.
Require Import Lia ZifyBool.

Lemma unpack8 row : unpack 8 (length row) row = row.
Proof.
  unfold unpack. apply nth_ext with (d := sample_at 8 row (N.of_nat 0)) (d' := 0).
  - rewrite map_length, seq_length. reflexivity.
  - intros n Hn. rewrite map_length, seq_length in Hn.
    rewrite (map_nth (fun k => sample_at 8 row (N.of_nat k))). rewrite seq_nth by exact Hn.
    cbn [plus]. change (sample_at 8 row (N.of_nat n)) with (bnth row (N.of_nat n)).
    unfold bnth. rewrite Nat2N.id. reflexivity.
Qed.

Lemma row_bytes8 n : row_bytes n 8 = n.
Proof. unfold row_bytes. symmetry. apply (N.div_unique (n * 8 + 7) 8 n 7); lia. Qed.

(** grouping *)
Lemma group_fuel {A} n : (1 <= n)%nat -> forall f1 f2 (l : list A),
  (length l <= f1)%nat -> (length l <= f2)%nat -> group n f1 l = group n f2 l.
Proof.
  intros Hn. induction f1 as [|f1 IH]; intros f2 l H1 H2.
  - destruct l; [|cbn in H1; lia]. destruct f2; reflexivity.
  - destruct f2 as [|f2]; [destruct l; [reflexivity | cbn in H2; lia]|].
    cbn [group]. destruct l as [|x l]; [reflexivity|].
    f_equal. apply IH; rewrite skipn_length; cbn [length] in *; lia.
Qed.

Lemma groups_cons {A} n (a b : list A) : (1 <= n)%nat -> length a = n -> groups n (a ++ b) = a :: groups n b.
Proof.
  intros Hn Ha. unfold groups. rewrite app_length.
  destruct a as [|x a]; [cbn in Ha; lia|].
  change (length (x :: a) + length b)%nat with (S (length a + length b)).
  cbn [group]. change (x :: a ++ b) with ((x :: a) ++ b).
  rewrite firstn_app, skipn_app, Ha, Nat.sub_diag. cbn [firstn skipn].
  rewrite firstn_all2 by lia. rewrite skipn_all2 by lia. rewrite app_nil_r. cbn [app].
  f_equal. apply group_fuel; cbn [length] in *; lia.
Qed.

Lemma groups_concat {A} n (gs : list (list A)) : (1 <= n)%nat ->
  Forall (fun g => length g = n) gs -> groups n (concat gs) = gs.
Proof.
  intros Hn F. induction F as [|g gs Hg F IH]; [reflexivity|].
  cbn [concat]. rewrite groups_cons by assumption. rewrite IH. reflexivity.
Qed.

Lemma split_groups {A} n : (1 <= n)%nat -> forall k (l : list A), length l = (k * n)%nat ->
  exists gs, l = concat gs /\ Forall (fun g => length g = n) gs /\ length gs = k.
Proof.
  intros Hn. induction k as [|k IH]; intros l Hl.
  - destruct l; [|discriminate]. exists []. repeat split. constructor.
  - rewrite Nat.mul_succ_l in Hl.
    destruct (IH (skipn n l)) as (gs & E & F & L); [rewrite skipn_length; lia|].
    exists (firstn n l :: gs). repeat split.
    + cbn [concat]. rewrite <- E. symmetry. apply firstn_skipn.
    + constructor; [rewrite firstn_length; lia | exact F].
    + cbn [length]. lia.
Qed.

Lemma concat_length_groups {A} n (gs : list (list A)) :
  Forall (fun g => length g = n) gs -> length (concat gs) = (length gs * n)%nat.
Proof.
  induction 1 as [|g gs Hg F IH]; [reflexivity|]. cbn [concat length]. rewrite app_length, IH, Hg. lia.
Qed.

(** PDF image rows at 8 bits per component: the samples are the bytes *)
Lemma take_rows8 rb : forall h data, length data = (h * rb)%nat ->
  exists rows, take_rows h rb data = Some rows /\ flat_map (unpack 8 rb) rows = data.
Proof.
  induction h as [|k IH]; intros data Hl.
  - destruct data; [|discriminate]. exists []. split; reflexivity.
  - rewrite Nat.mul_succ_l in Hl. cbn [take_rows].
    replace (Nat.ltb (length data) rb) with false by (symmetry; apply Nat.ltb_ge; lia).
    destruct (IH (skipn rb data)) as (rows & E & F); [rewrite skipn_length; lia|].
    rewrite E. exists (firstn rb data :: rows). split; [reflexivity|].
    cbn [flat_map]. rewrite F.
    assert (L : length (firstn rb data) = rb) by (rewrite firstn_length; lia).
    rewrite <- L at 1. rewrite unpack8. apply firstn_skipn.
Qed.

Lemma image_samples8 w h nc data : lenN data = h * (w * nc) -> image_samples w h nc 8 data = Some data.
Proof.
  intros Hl. unfold image_samples. rewrite row_bytes8.
  destruct (take_rows8 (N.to_nat (w * nc)) (N.to_nat h) data) as (rows & E & F).
  { unfold lenN in Hl. lia. }
  rewrite E, F. reflexivity.
Qed.

(** sequence of total maps *)
Lemma sequence_map_some {A B} (f : A -> option B) (g : A -> B) l :
  Forall (fun x => f x = Some (g x)) l -> sequence (map f l) = Some (map g l).
Proof.
  induction 1 as [|x l Hx F IH]; [reflexivity|]. cbn [map sequence]. rewrite Hx, IH. reflexivity.
Qed.

(** the pixel a group of 8-bit samples denotes, per colour type *)
Definition pxf (ct : N) (g : list N) : pixel :=
  match ct with
  | 4 => mkPx (firstn 1 g) 255 (nth 1 g 0) 255
  | 6 => mkPx (firstn 3 g) 255 (nth 3 g 0) 255
  | _ => opaque g 255
  end.

Lemma png_pixel8 ct plte g : In ct [0; 2; 4; 6] -> lenN g = png_channels ct ->
  png_pixel ct 8 plte None g = Some (pxf ct g).
Proof.
  unfold lenN. intros Hct Hl.
  destruct Hct as [<- | [<- | [<- | [<- | []]]]]; cbn in Hl;
    repeat (destruct g as [|? g]; try (cbn in Hl; lia)); reflexivity.
Qed.

(** separate_alpha on a concatenation of pixel groups *)
Lemma sep2_concat gs : Forall (fun g => length g = 2%nat) gs ->
  m_sep2 (concat gs) = (concat (map (firstn 1) gs), map (fun g => nth 1 g 0) gs).
Proof.
  induction 1 as [|g gs Hg F IH]; [reflexivity|].
  do 3 (destruct g as [|? g]; try discriminate). cbn [concat app m_sep2]. rewrite IH. reflexivity.
Qed.
Lemma sep4_concat gs : Forall (fun g => length g = 4%nat) gs ->
  m_sep4 (concat gs) = (concat (map (firstn 3) gs), map (fun g => nth 3 g 0) gs).
Proof.
  induction 1 as [|g gs Hg F IH]; [reflexivity|].
  do 5 (destruct g as [|? g]; try discriminate). cbn [concat app m_sep4]. rewrite IH. reflexivity.
Qed.

Lemma Forall_firstn_len (k n : nat) (gs : list (list N)) : (k <= n)%nat ->
  Forall (fun g => length g = n) gs -> Forall (fun g => length g = k) (map (firstn k) gs).
Proof.
  intros Hk F. induction F as [|g gs Hg F IH]; cbn [map]; constructor; [rewrite firstn_length; lia | exact IH].
Qed.

Lemma combine_map_same {A B C} (f : A -> B) (g : A -> C) (l : list A) :
  combine (map f l) (map g l) = map (fun x => (f x, g x)) l.
Proof. induction l; cbn; [reflexivity | f_equal; assumption]. Qed.

(** pixels of the XObject data against pixel groups *)
Lemma zip_alpha k n gs : (1 <= k)%nat -> (k <= n)%nat -> Forall (fun g => length g = n) gs ->
  zip_pixels k 255 (concat (map (firstn k) gs)) (Some (map (fun g => nth k g 0) gs, 255))
  = map (fun g => mkPx (firstn k g) 255 (nth k g 0) 255) gs.
Proof.
  intros Hk Hn F. unfold zip_pixels.
  rewrite groups_concat by (try exact Hk; apply Forall_firstn_len with (n := n); assumption).
  rewrite combine_map_same, map_map. reflexivity.
Qed.
Lemma zip_opaque n gs : (1 <= n)%nat -> Forall (fun g => length g = n) gs ->
  zip_pixels n 255 (concat gs) None = map (fun g => opaque g 255) gs.
Proof. intros Hn F. unfold zip_pixels. rewrite groups_concat by assumption. reflexivity. Qed.
