(** C24 — case judges evaluated on the harness output (same definitions the theorems speak about).
    code bit 1: model <> implementation; bit 2: the XObject read back from the written document does not
    decode to the pixels of the ISO-shaped PNG decoder (or the raw buffer's pixels); bit 4: the harness'
    own PNG encoder and the Coq decoder disagree about the pixels of the generated file. *)
From OxVerif Require Import Base.Util C24.Png C24.Model.

Inductive impl := IErr | IPanic | IOk (x : xobj).

Definition smask_eqb (a b : smask) : bool :=
  (m_w a =? m_w b)%Z && (m_h a =? m_h b)%Z && (m_cs a =? m_cs b) && (m_bpc a =? m_bpc b)%Z &&
  Bool.eqb (m_plain a) (m_plain b) && bytes_eqb (m_data a) (m_data b).
Definition xobj_eqb (a b : xobj) : bool :=
  (x_w a =? x_w b)%Z && (x_h a =? x_h b)%Z && (x_cs a =? x_cs b) && (x_bpc a =? x_bpc b)%Z &&
  Bool.eqb (x_plain a) (x_plain b) && bytes_eqb (x_data a) (x_data b) &&
  option_eqb smask_eqb (x_smask a) (x_smask b).

Definition model_matches (m : option xobj) (i : impl) : bool :=
  match m, i with
  | None, IErr => true
  | Some a, IOk b => xobj_eqb a b
  | _, _ => false
  end.

Definition decodes_to (i : impl) (ps : list pixel) : bool :=
  match i with
  | IOk x => match xobj_pixels x with Some q => pixels_eqb q ps | None => false end
  | _ => false
  end.

(** ihdr data, PLTE, tRNS, inflated IDAT stream, the samples the harness encoded (2 bytes each; empty for a
    deliberately invalid stream), what the library produced *)
Inductive png_case := PngCase (ihdr_data : bytes) (plte trns : option bytes) (raw : bytes) (want : bytes) (i : impl).

Fixpoint be16s (l : bytes) : list N :=
  match l with a :: b :: r => be16 a b :: be16s r | _ => [] end.

Definition px_eqb (p q : pixel) : bool :=
  list_eqb N.eqb (p_c p) (p_c q) && (p_cmax p =? p_cmax q) && (p_a p =? p_a q) && (p_amax p =? p_amax q).

Definition intended (ihdr_data : bytes) (plte trns : option bytes) (want : bytes) : option (list pixel) :=
  match parse_ihdr ihdr_data with
  | None => None
  | Some i => sequence (map (png_pixel (i_ct i) (i_bd i) plte trns)
                            (groups (N.to_nat (png_channels (i_ct i))) (be16s want)))
  end.

Definition png_code (c : png_case) : N :=
  let '(PngCase ih plte trns raw want i) := c in
  let spec := spec_pixels ih plte trns raw in
  let model_ok := model_matches (m_from_png (fun _ => Some raw) ih []) i in
  let prop_ok := match spec with None => true | Some ps => decodes_to i ps end in
  let enc_ok := match want, spec with
                | [], None => true
                | _ :: _, Some ps => match intended ih plte trns want with
                                     | Some q => list_eqb px_eqb q ps
                                     | None => false end
                | _, _ => false
                end in
  code_of model_ok prop_ok + (if enc_ok then 0 else 4).

Inductive raw_kind := KRaw | KRgba | KGray.
Inductive raw_case := RawCase (k : raw_kind) (w h cs bpc : N) (buf : bytes) (i : impl).

Fixpoint rgba_pixels (d : bytes) : list pixel :=
  match d with
  | r :: g :: b :: a :: rest => mkPx [r; g; b] 255 a 255 :: rgba_pixels rest
  | _ => []
  end.

(** the pixels a supplied buffer denotes; None = the (buffer, dimensions) pair is not an image *)
Definition raw_pixels (k : raw_kind) (w h cs bpc : N) (buf : bytes) : option (list pixel) :=
  if (w =? 0) || (h =? 0) then None else
  match k with
  | KRgba => if lenN buf =? w * h * 4 then Some (rgba_pixels buf) else None
  | KGray => if lenN buf =? w * h then Some (map (fun g => opaque [g] 255) buf) else None
  | KRaw => if lenN buf =? h * row_bytes (w * cs) bpc
            then xobj_pixels (mkX (Z.of_N w) (Z.of_N h) cs (Z.of_N bpc) true buf None) else None
  end.

Definition m_raw (k : raw_kind) (w h cs bpc : N) (buf : bytes) : option xobj :=
  match k with
  | KRaw => m_from_raw buf w h cs bpc
  | KRgba => m_from_rgba buf w h
  | KGray => m_from_gray buf w h
  end.

Definition raw_code (c : raw_case) : N :=
  let '(RawCase k w h cs bpc buf i) := c in
  let model_ok := model_matches (m_raw k w h cs bpc buf) i in
  let prop_ok := match raw_pixels k w h cs bpc buf with None => true | Some ps => decodes_to i ps end in
  code_of model_ok prop_ok.
