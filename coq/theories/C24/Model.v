(** C24 — code-shaped model of graphics/png_decoder.rs (PngDecoder::process_ihdr, decode_image_data,
    unfilter_row, separate_alpha, paeth_predictor) and graphics/pdf_image.rs (Image::from_png_data,
    from_raw_data, from_rgba_data, from_gray_data, and the image XObject the writer emits for them:
    to_pdf_object / to_pdf_object_with_transparency + the /SMask reference set in writer/pdf_writer).
    The unfilter loops reuse the loop combinator and byte helpers of the C07 predictor model
    (row_loop, nth0, wadd, paeth): C24's unfilter is the same mathematics, only the treatment of the
    first row (a zero row instead of `None`) and of `i < bpp` differs, and is modelled as written here.
    zlib (flate2) is a Section variable. *)
From OxVerif Require Import Base.Util C07.Filters C07.Predictor C24.Png.

(** PngColorType::from_byte + channels(): NOTE Palette => 3 as written *)
Definition m_channels (ct : N) : option N :=
  match ct with 0 => Some 1 | 2 => Some 3 | 3 => Some 3 | 4 => Some 2 | 6 => Some 4 | _ => None end.
Definition m_has_alpha (ct : N) : bool := (ct =? 4) || (ct =? 6).

(** process_ihdr: Ok (width, height, bit_depth, color_type) or Err *)
Definition m_process_ihdr (d : bytes) : option (N * N * N * N) :=
  if lenN d <? 13 then None else
  let w := be32 (nth0 d 0) (nth0 d 1) (nth0 d 2) (nth0 d 3) in
  let h := be32 (nth0 d 4) (nth0 d 5) (nth0 d 6) (nth0 d 7) in
  let bd := nth0 d 8 in
  let ct := nth0 d 9 in
  match m_channels ct with
  | None => None                                             (* Invalid PNG color type *)
  | Some _ =>
      if negb ((nth0 d 10 =? 0) && (nth0 d 11 =? 0)) then None   (* compression / filter method *)
      else if negb (nth0 d 12 =? 0) then None                    (* "Interlaced PNG not yet supported" *)
      else Some (w, h, bd, ct)
  end.

(** unfilter_row: `result` is the vector being filled; [acc] = its first i entries *)
Definition m_left (bpp i : N) (acc : bytes) : N := if bpp <=? i then nth0 acc (i - bpp) else 0.
Definition m_sub_g (bpp : N) (i : N) (acc : bytes) (byte : N) : N := wadd byte (m_left bpp i acc).
Definition m_up_g (prev : bytes) (i : N) (acc : bytes) (byte : N) : N := wadd byte (nth0 prev i).
Definition m_avg_g (bpp : N) (prev : bytes) (i : N) (acc : bytes) (byte : N) : N :=
  wadd byte (((m_left bpp i acc + nth0 prev i) / 2) mod 256).      (* u16 sum, `as u8` *)
Definition m_paeth_g (bpp : N) (prev : bytes) (i : N) (acc : bytes) (byte : N) : N :=
  let up_left := if bpp <=? i then nth0 prev (i - bpp) else 0 in
  wadd byte (paeth (m_left bpp i acc) (nth0 prev i) up_left).

Definition m_unfilter_row (ft : N) (row prev : bytes) (bpp : N) : option bytes :=
  match ft with
  | 0 => Some row
  | 1 => Some (row_loop (m_sub_g bpp) row [] 0)
  | 2 => Some (row_loop (m_up_g prev) row [] 0)
  | 3 => Some (row_loop (m_avg_g bpp prev) row [] 0)
  | 4 => Some (row_loop (m_paeth_g bpp prev) row [] 0)
  | _ => None
  end.

(** `for y in 0..height`: [raw] is the rest of raw_data from row_start on; rows are contiguous *)
Fixpoint m_rows (h : nat) (bpr : nat) (bpp : N) (raw prev : bytes) : option bytes :=
  match h with
  | O => Some []
  | S k =>
      let ft := nth0 raw 0 in
      let row := firstn (bpr - 1) (skipn 1 raw) in
      match m_unfilter_row ft row prev bpp with
      | None => None
      | Some cur => match m_rows k bpr bpp (skipn bpr raw) cur with
                    | Some r => Some (cur ++ r)
                    | None => None
                    end
      end
  end.

(** separate_alpha: chunks_exact(2) / chunks_exact(4) *)
Fixpoint m_sep2 (d : bytes) : bytes * bytes :=
  match d with
  | g :: a :: r => let '(gs, al) := m_sep2 r in (g :: gs, a :: al)
  | _ => ([], [])
  end.
Fixpoint m_sep4 (d : bytes) : bytes * bytes :=
  match d with
  | r :: g :: b :: a :: rest => let '(cs, al) := m_sep4 rest in (r :: g :: b :: cs, a :: al)
  | _ => ([], [])
  end.

Definition m_separate_alpha (ct : N) (decoded : bytes) : bytes * option bytes :=
  if ct =? 4 then let '(g, a) := m_sep2 decoded in (g, Some a)
  else if ct =? 6 then let '(c, a) := m_sep4 decoded in (c, Some a)
  else (decoded, None).

(** decode_image_data (usize arithmetic cannot overflow: w,h < 2^32, bpp <= 8*255) *)
Definition m_decode_image_data (w h bd ct : N) (raw : bytes) : option (bytes * option bytes) :=
  match m_channels ct with
  | None => None
  | Some ch =>
      let bpp := (bd * ch + 7) / 8 in                 (* div_ceil(8) *)
      let bpr := w * bpp + 1 in
      if lenN raw <? h * bpr then None                 (* Insufficient PNG image data *)
      else match m_rows (N.to_nat h) (N.to_nat bpr) bpp raw (repeat 0 (N.to_nat (bpr - 1))) with
           | None => None
           | Some decoded => Some (m_separate_alpha ct decoded)
           end
  end.

(** Image::from_png_data followed by the writer: colour space by colour type, /BitsPerComponent 8 always,
    stream data = image_data (Flate-coded, decoded again by the reader), /SMask = alpha_data as an
    8-bit DeviceGray image of the same dimensions.  PLTE and tRNS are parsed but never used. *)
Definition m_image_xobj (w h ct : N) (r : bytes * option bytes) : xobj :=
  let '(img, alpha) := r in
  let cs := if (ct =? 0) || (ct =? 4) then 1 else 3 in
  mkX (Z.of_N w) (Z.of_N h) cs 8 true img
      (match alpha with
       | Some a => Some (mkM (Z.of_N w) (Z.of_N h) 1 8 true a)
       | None => None
       end).

Section Zlib.
  Variable inflate : bytes -> option bytes.     (* flate2 ZlibDecoder on the concatenated IDAT data *)

  (** decode_png for a file whose chunks are IHDR [PLTE] [tRNS] IDAT+ IEND (+ ignored ancillary chunks);
      the result keeps what from_png_data uses *)
  Definition m_decode_png (ihdr_data idat : bytes) : option (N * N * N * (bytes * option bytes)) :=
    match m_process_ihdr ihdr_data with
    | None => None
    | Some (w, h, bd, ct) =>
        if (w =? 0) || (h =? 0) then None
        else match inflate idat with
             | None => None
             | Some raw => match m_decode_image_data w h bd ct raw with
                           | Some r => Some (w, h, ct, r)
                           | None => None
                           end
             end
    end.

  Definition m_from_png (ihdr_data idat : bytes) : option xobj :=
    match m_decode_png ihdr_data idat with
    | None => None
    | Some (w, h, ct, r) => Some (m_image_xobj w h ct r)
    end.
End Zlib.

(** raw buffers.  [cs] as in xobj.  With fix_image_size_overflow.patch the size tests are done in
    checked usize arithmetic, i.e. exactly (a product that does not fit cannot equal a Vec length). *)
Definition m_from_raw (data : bytes) (w h cs bpc : N) : option xobj :=
  Some (mkX (Z.of_N w) (Z.of_N h) cs (Z.of_N bpc) true data None).       (* no validation at all *)
Definition m_from_rgba (data : bytes) (w h : N) : option xobj :=
  if negb (lenN data =? w * h * 4) then None
  else let '(rgb, a) := m_sep4 data in       (* chunks(4) on a length that is a multiple of 4 *)
       Some (mkX (Z.of_N w) (Z.of_N h) 3 8 true rgb (Some (mkM (Z.of_N w) (Z.of_N h) 1 8 true a))).
Definition m_from_gray (data : bytes) (w h : N) : option xobj :=
  if negb (lenN data =? w * h) then None
  else Some (mkX (Z.of_N w) (Z.of_N h) 1 8 true data None).
