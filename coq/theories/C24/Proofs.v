(** C24 — main theorems: for every non-interlaced 8-bit PNG of colour type 0/2/4/6 without tRNS the
    model's image XObject decodes (PDF semantics) to exactly the pixels of the ISO-shaped decoder;
    the soft mask carries the alpha samples; raw buffers are embedded sample for sample; refutation
    witnesses for the classes where the pinned tree differs. *)
From OxVerif Require Import Base.Util C07.Filters C07.Predictor C24.Png C24.Model C24.Check C24.ProofsRow C24.ProofsPix.
Require Import Lia ZifyBool.

Definition ct8 (ct : N) : Prop := In ct [0; 2; 4; 6].
Notation chn ct := (N.to_nat (png_channels ct)).

Lemma chn_pos ct : ct8 ct -> (1 <= chn ct)%nat.
Proof. intros [<- | [<- | [<- | [<- | []]]]]; cbn; lia. Qed.

Lemma row_pixels8 ct plte w row : ct8 ct -> length row = (w * chn ct)%nat ->
  exists gs, row = concat gs /\ Forall (fun g => length g = chn ct) gs /\ length gs = w /\
             row_pixels ct 8 plte None w row = Some (map (pxf ct) gs).
Proof.
  intros Hct Hl. pose proof (chn_pos ct Hct) as Hc.
  destruct (split_groups (chn ct) Hc w row Hl) as (gs & E & F & L).
  exists gs. repeat split; try assumption.
  unfold row_pixels. rewrite <- Hl, unpack8, E, groups_concat by assumption.
  apply sequence_map_some. eapply Forall_impl; [|exact F].
  intros g Hg. cbv beta in Hg. apply png_pixel8; [exact Hct | unfold lenN; rewrite Hg; apply N2Nat.id].
Qed.

Lemma rows_pixels8 ct plte w rows : ct8 ct -> Forall (fun r => length r = (w * chn ct)%nat) rows ->
  exists ags pr, concat rows = concat ags /\ Forall (fun g => length g = chn ct) ags /\
     length ags = (length rows * w)%nat /\
     sequence (map (row_pixels ct 8 plte None w) rows) = Some pr /\ concat pr = map (pxf ct) ags.
Proof.
  intros Hct F. induction F as [|r rs Hr F IH].
  - exists [], []. repeat split. constructor.
  - destruct IH as (ags & pr & E & Fa & L & S & P).
    destruct (row_pixels8 ct plte w r Hct Hr) as (gs & Eg & Fg & Lg & Rg).
    exists (gs ++ ags), (map (pxf ct) gs :: pr). repeat split.
    + cbn [concat]. rewrite concat_app, <- Eg, <- E. reflexivity.
    + apply Forall_app. split; assumption.
    + rewrite app_length. cbn [length]. lia.
    + cbn [map sequence]. rewrite Rg, S. reflexivity.
    + cbn [concat]. rewrite P, map_app. reflexivity.
Qed.

(** the XObject built from the decoded bytes, read with the PDF image semantics *)
Ltac guard_true w h :=
  unfold xobj_pixels; cbn [x_plain x_bpc x_w x_h x_cs x_data x_smask m_plain m_bpc m_w m_h m_cs m_data];
  change (bpc_ok 8) with true;
  replace (0 <? Z.of_N w)%Z with true by lia; replace (0 <? Z.of_N h)%Z with true by lia;
  rewrite ?Z.eqb_refl; rewrite ?N2Z.id; change (Z.to_N 8) with 8; change (2 ^ 8 - 1) with 255.

Lemma xobj_side ct w h ags : ct8 ct -> 0 < w -> 0 < h ->
  Forall (fun g => length g = chn ct) ags -> length ags = (N.to_nat h * N.to_nat w)%nat ->
  xobj_pixels (m_image_xobj w h ct (m_separate_alpha ct (concat ags))) = Some (map (pxf ct) ags).
Proof.
  intros Hct Hw Hh F L.
  destruct Hct as [<- | [<- | [<- | [<- | []]]]].
  - (* greyscale *)
    change (m_image_xobj w h 0 (m_separate_alpha 0 (concat ags)))
      with (mkX (Z.of_N w) (Z.of_N h) 1 8 true (concat ags) None).
    guard_true w h. cbn [negb andb orb]. change (1 =? 1) with true. cbn [negb andb orb].
    rewrite image_samples8.
    + change (N.to_nat 1) with 1%nat. rewrite zip_opaque by (try lia; exact F). reflexivity.
    + unfold lenN. rewrite (concat_length_groups 1 ags F). lia.
  - (* RGB *)
    change (m_image_xobj w h 2 (m_separate_alpha 2 (concat ags)))
      with (mkX (Z.of_N w) (Z.of_N h) 3 8 true (concat ags) None).
    guard_true w h. change (3 =? 1) with false. change (3 =? 3) with true. cbn [negb andb orb].
    rewrite image_samples8.
    + change (N.to_nat 3) with 3%nat. rewrite zip_opaque by (try lia; exact F). reflexivity.
    + unfold lenN. rewrite (concat_length_groups 3 ags F). lia.
  - (* greyscale + alpha *)
    unfold m_separate_alpha. change (4 =? 4) with true. cbv iota.
    rewrite sep2_concat by exact F. cbv iota beta.
    change (m_image_xobj w h 4 (?a, Some ?b)) with (mkX (Z.of_N w) (Z.of_N h) 1 8 true a (Some (mkM (Z.of_N w) (Z.of_N h) 1 8 true b))).
    guard_true w h. change (1 =? 1) with true. cbn [negb andb orb].
    pose proof (Forall_firstn_len 1 2 ags ltac:(lia) F) as F1.
    rewrite image_samples8.
    + rewrite image_samples8.
      * change (N.to_nat 1) with 1%nat. rewrite (zip_alpha 1 2) by (try lia; exact F). reflexivity.
      * unfold lenN. rewrite map_length. lia.
    + unfold lenN. rewrite (concat_length_groups 1 _ F1), map_length. lia.
  - (* RGB + alpha *)
    unfold m_separate_alpha. change (6 =? 4) with false. change (6 =? 6) with true. cbv iota.
    rewrite sep4_concat by exact F. cbv iota beta.
    change (m_image_xobj w h 6 (?a, Some ?b)) with (mkX (Z.of_N w) (Z.of_N h) 3 8 true a (Some (mkM (Z.of_N w) (Z.of_N h) 1 8 true b))).
    guard_true w h. change (3 =? 1) with false. change (3 =? 3) with true. change (1 =? 1) with true. cbn [negb andb orb].
    pose proof (Forall_firstn_len 3 4 ags ltac:(lia) F) as F1.
    rewrite image_samples8.
    + rewrite image_samples8.
      * change (N.to_nat 3) with 3%nat. rewrite (zip_alpha 3 4) by (try lia; exact F). reflexivity.
      * unfold lenN. rewrite map_length. lia.
    + unfold lenN. rewrite (concat_length_groups 3 _ F1), map_length. lia.
Qed.

Lemma ct8_facts ct : ct8 ct ->
  m_channels ct = Some (png_channels ct) /\ png_bpp ct 8 = png_channels ct /\
  (8 * png_channels ct + 7) / 8 = png_channels ct /\ (ct =? 3) = false /\ 1 <= png_channels ct.
Proof. intros [<- | [<- | [<- | [<- | []]]]]; vm_compute; repeat split; congruence. Qed.

(** process_ihdr reads the fields the standard defines; its checks are implied by IHDR validity *)
Lemma process_ihdr_ok d i : parse_ihdr d = Some i -> ihdr_ok i = true -> i_il i = 0 -> ct8 (i_ct i) ->
  m_process_ihdr d = Some (i_w i, i_h i, i_bd i, i_ct i).
Proof.
  intros Hp Hok Hil Hct. unfold parse_ihdr in Hp.
  do 14 (destruct d as [|? d]; try discriminate). injection Hp as <-.
  unfold ihdr_ok in Hok. cbn [i_w i_h i_bd i_ct i_comp i_filt i_il] in *.
  destruct (ct8_facts _ Hct) as (Hch & _).
  unfold m_process_ihdr.
  match goal with |- context [lenN ?l <? 13] => change (lenN l <? 13) with false end.
  cbv iota. cbv [nth0 N.to_nat Pos.to_nat Pos.iter_op Init.Nat.add nth].
  rewrite Hch. subst.
  assert (n9 = 0 /\ n10 = 0) as [-> ->] by lia.
  reflexivity.
Qed.

(** * Core: the decoded bytes are the spec's pixel groups *)
Lemma png_model_core (inflate : bytes -> option bytes) ihdr_data idat raw plte i ps :
  inflate idat = Some raw -> parse_ihdr ihdr_data = Some i ->
  i_bd i = 8 -> i_il i = 0 -> ct8 (i_ct i) ->
  spec_pixels ihdr_data plte None raw = Some ps ->
  exists ags, m_from_png inflate ihdr_data idat
              = Some (m_image_xobj (i_w i) (i_h i) (i_ct i) (m_separate_alpha (i_ct i) (concat ags))) /\
              ps = map (pxf (i_ct i)) ags /\ Forall (fun g => length g = chn (i_ct i)) ags /\
              length ags = (N.to_nat (i_h i) * N.to_nat (i_w i))%nat /\ 0 < i_w i /\ 0 < i_h i.
Proof.
  intros Hinf Hp Hbd Hil Hct Hs.
  unfold spec_pixels in Hs. rewrite Hp in Hs.
  destruct (ihdr_ok i) eqn:Hok; [|discriminate]. cbn [negb] in Hs.
  pose proof (process_ihdr_ok _ _ Hp Hok Hil Hct) as Hm.
  destruct (ct8_facts _ Hct) as (Hch & Hbpp & Hdiv & H3 & Hc1).
  rewrite H3, Hil, Hbd in Hs. cbn [andb] in Hs. change (0 =? 0) with true in Hs. cbv iota in Hs.
  unfold ihdr_ok in Hok.
  destruct i as [w h bd ct cm fm il]. cbn [i_w i_h i_bd i_ct i_comp i_filt i_il] in *. subst bd il.
  assert (Hw : 0 < w) by lia. assert (Hh : 0 < h) by lia.
  unfold png_subimage in Hs. rewrite row_bytes8, Hbpp in Hs.
  set (rb := N.to_nat (N.of_nat (N.to_nat w) * png_channels ct)) in *.
  assert (Erb : rb = (N.to_nat w * chn ct)%nat) by (subst rb; rewrite N2Nat.inj_mul, Nat2N.id; reflexivity).
  destruct (recon_rows (N.to_nat h) rb (png_channels ct) raw (repeat 0 rb)) as [rows|] eqn:Hr; [|discriminate].
  destruct (sequence (map (row_pixels ct 8 plte None (N.to_nat w)) rows)) as [pr|] eqn:Hq; [|discriminate].
  injection Hs as <-.
  destruct (recon_rows_shape _ _ _ _ _ _ Hr) as (L1 & L2 & F).
  rewrite Erb in F.
  destruct (rows_pixels8 ct plte (N.to_nat w) rows Hct F) as (ags & pr' & E & Fa & La & Sq & P).
  rewrite Hq in Sq. injection Sq as <-.
  exists ags. repeat split; try assumption.
  - unfold m_from_png, m_decode_png. rewrite Hm.
    replace ((w =? 0) || (h =? 0)) with false by lia. rewrite Hinf.
    unfold m_decode_image_data. rewrite Hch, Hdiv.
    assert (Ebpr : N.to_nat (w * png_channels ct + 1) = S rb) by (subst rb; lia).
    assert (Ebpr1 : N.to_nat (w * png_channels ct + 1 - 1) = rb) by (subst rb; lia).
    replace (lenN raw <? h * (w * png_channels ct + 1)) with false.
    2:{ symmetry. apply N.ltb_ge. unfold lenN.
        replace (h * (w * png_channels ct + 1)) with (N.of_nat (N.to_nat h * S rb)) by (rewrite <- Ebpr; lia).
        lia. }
    rewrite Ebpr, Ebpr1. rewrite m_rows_is_recon by (try exact Hc1; exact L1).
    rewrite Hr, E. reflexivity.
  - etransitivity; [exact La | f_equal; exact L2].
Qed.

(** * Main theorem *)
Theorem png_model_eq_spec_8bit (inflate : bytes -> option bytes) ihdr_data idat raw plte i ps :
  inflate idat = Some raw -> parse_ihdr ihdr_data = Some i ->
  i_bd i = 8 -> i_il i = 0 -> ct8 (i_ct i) ->
  spec_pixels ihdr_data plte None raw = Some ps ->
  exists x, m_from_png inflate ihdr_data idat = Some x /\ xobj_pixels x = Some ps.
Proof.
  intros Hinf Hp Hbd Hil Hct Hs.
  destruct (png_model_core inflate _ _ _ _ _ _ Hinf Hp Hbd Hil Hct Hs) as (ags & Hm & -> & F & L & Hw & Hh).
  eexists. split; [exact Hm|]. apply xobj_side; assumption.
Qed.

(** the soft mask of an image with an alpha channel is an 8-bit DeviceGray image of the same size whose
    samples are exactly the alpha samples of the reference pixels *)
Theorem smask_is_alpha (inflate : bytes -> option bytes) ihdr_data idat raw plte i ps :
  inflate idat = Some raw -> parse_ihdr ihdr_data = Some i ->
  i_bd i = 8 -> i_il i = 0 -> In (i_ct i) [4; 6] ->
  spec_pixels ihdr_data plte None raw = Some ps ->
  exists x m, m_from_png inflate ihdr_data idat = Some x /\ x_smask x = Some m /\
              m_data m = map p_a ps /\ Forall (fun p => p_amax p = 255) ps /\
              m_bpc m = 8%Z /\ m_cs m = 1 /\ m_plain m = true /\ m_w m = x_w x /\ m_h m = x_h x.
Proof.
  intros Hinf Hp Hbd Hil Hct Hs.
  assert (Hct8 : ct8 (i_ct i)) by (unfold ct8; cbn in *; tauto).
  destruct (png_model_core inflate _ _ _ _ _ _ Hinf Hp Hbd Hil Hct8 Hs) as (ags & Hm & -> & F & L & Hw & Hh).
  rewrite Hm. destruct Hct as [E | [E | []]]; rewrite <- E in *; clear E.
  - unfold m_separate_alpha. change (4 =? 4) with true. cbv iota. rewrite sep2_concat by exact F. cbv iota beta.
    eexists. eexists. split; [reflexivity|]. cbn. repeat split; try reflexivity.
    + rewrite map_map. reflexivity.
    + apply Forall_map. apply Forall_forall. intros; reflexivity.
  - unfold m_separate_alpha. change (6 =? 4) with false. change (6 =? 6) with true. cbv iota.
    rewrite sep4_concat by exact F. cbv iota beta.
    eexists. eexists. split; [reflexivity|]. cbn. repeat split; try reflexivity.
    + rewrite map_map. reflexivity.
    + apply Forall_map. apply Forall_forall. intros; reflexivity.
Qed.

(** * The property on the model, as a boolean: whenever the reference decoder accepts the PNG, the model
    produces an XObject whose pixels (PDF semantics) equal the reference pixels *)
Definition model_impl (ih raw : bytes) : impl :=
  match m_from_png (fun _ => Some raw) ih [] with Some x => IOk x | None => IErr end.
Definition png_decodes_right (ih : bytes) (plte trns : option bytes) (raw : bytes) : bool :=
  match spec_pixels ih plte trns raw with
  | None => true
  | Some ps => decodes_to (model_impl ih raw) ps
  end.

Definition px_ok (p : pixel) : Prop := p_cmax p <> 0 /\ p_amax p <> 0.
Lemma pixel_eqb_refl p : px_ok p -> pixel_eqb p p = true.
Proof.
  intros [Hc Ha]. unfold pixel_eqb, frac_eqb. rewrite Nat.eqb_refl, N.eqb_refl. cbn [andb].
  replace (p_amax p =? 0) with false by lia. replace (p_cmax p =? 0) with false by lia. cbn [negb andb].
  rewrite andb_true_r. induction (norm_comps (p_c p)) as [|a l IH]; [reflexivity|].
  cbn [combine forallb]. rewrite IH, N.eqb_refl. reflexivity.
Qed.
Lemma pixels_eqb_refl ps : Forall px_ok ps -> pixels_eqb ps ps = true.
Proof.
  induction 1 as [|p ps Hp F IH]; [reflexivity|]. unfold pixels_eqb in *. cbn [list_eqb].
  rewrite pixel_eqb_refl by exact Hp. exact IH.
Qed.
Lemma pxf_ok ct g : px_ok (pxf ct g).
Proof. unfold pxf, px_ok. destruct ct as [|[[|[]|]|[[]|[]|]|]]; cbn; split; discriminate. Qed.

(** the classes of PNG input for which the pinned tree is known not to satisfy the property *)
Definition known_class (i : ihdr) (trns : option bytes) : Prop :=
  i_il i <> 0 \/ i_ct i = 3 \/ i_bd i <> 8 \/ trns <> None.

(** guarded positive theorem: outside the known classes every PNG the reference decoder accepts is
    embedded with exactly its pixels — all widths, heights, filter bytes and data *)
Theorem png_decodes_right_outside_known ih plte trns raw i :
  parse_ihdr ih = Some i -> ~ known_class i trns -> png_decodes_right ih plte trns raw = true.
Proof.
  intros Hp Hk. unfold png_decodes_right.
  destruct (spec_pixels ih plte trns raw) as [ps|] eqn:Hs; [|reflexivity].
  assert (Hil : i_il i = 0) by (destruct (N.eq_dec (i_il i) 0); [assumption | exfalso; apply Hk; left; assumption]).
  assert (H3 : i_ct i <> 3) by (intros E; apply Hk; right; left; exact E).
  assert (Hbd : i_bd i = 8) by (destruct (N.eq_dec (i_bd i) 8); [assumption | exfalso; apply Hk; right; right; left; assumption]).
  assert (Ht : trns = None) by (destruct trns; [exfalso; apply Hk; right; right; right; discriminate | reflexivity]).
  subst trns.
  assert (Hct : ct8 (i_ct i)).
  { unfold spec_pixels in Hs. rewrite Hp in Hs. destruct (ihdr_ok i) eqn:Hok; [|discriminate].
    unfold ihdr_ok in Hok. rewrite Hbd in Hok. unfold ct8.
    assert (D : depth_ok (i_ct i) 8 = true) by lia.
    unfold depth_ok in D. destruct (i_ct i) as [|[[|[]|]|[[]|[]|]|]]; try discriminate; cbn; tauto. }
  destruct (png_model_eq_spec_8bit (fun _ => Some raw) ih [] raw plte i ps eq_refl Hp Hbd Hil Hct Hs) as (x & Hm & Hx).
  unfold model_impl. rewrite Hm. unfold decodes_to. rewrite Hx.
  destruct (png_model_core (fun _ => Some raw) ih [] raw plte i ps eq_refl Hp Hbd Hil Hct Hs) as (ags & _ & -> & _).
  apply pixels_eqb_refl. apply Forall_map. apply Forall_forall. intros; apply pxf_ok.
Qed.

(** * Raw buffers *)
Lemma concat_singletons (l : bytes) : concat (map (fun b => [b]) l) = l.
Proof. induction l; cbn; [reflexivity | f_equal; assumption]. Qed.

Lemma rgba_pixels_groups gs : Forall (fun g => length g = 4%nat) gs -> rgba_pixels (concat gs) = map (pxf 6) gs.
Proof.
  induction 1 as [|g gs Hg F IH]; [reflexivity|].
  do 5 (destruct g as [|? g]; try discriminate). cbn [concat app rgba_pixels map]. rewrite IH. reflexivity.
Qed.

Theorem raw_rgb_identity :
  (* from_raw_data: the stream is the buffer, the dictionary carries the given parameters, no mask *)
  (forall data w h cs bpc,
     m_from_raw data w h cs bpc = Some (mkX (Z.of_N w) (Z.of_N h) cs (Z.of_N bpc) true data None) /\
     forall ps, raw_pixels KRaw w h cs bpc data = Some ps ->
                exists x, m_from_raw data w h cs bpc = Some x /\ xobj_pixels x = Some ps) /\
  (* from_gray_data *)
  (forall data w h, 0 < w -> 0 < h -> lenN data = w * h ->
     exists x, m_from_gray data w h = Some x /\ x_data x = data /\
               xobj_pixels x = Some (map (fun g => opaque [g] 255) data)) /\
  (* from_rgba_data: colour samples and alpha samples are split correctly *)
  (forall data w h, 0 < w -> 0 < h -> lenN data = w * h * 4 ->
     exists x m, m_from_rgba data w h = Some x /\ x_smask x = Some m /\
                 xobj_pixels x = Some (rgba_pixels data) /\ m_data m = map p_a (rgba_pixels data)).
Proof.
  split; [|split].
  - intros. split; [reflexivity|]. intros ps H. eexists. split; [reflexivity|].
    unfold raw_pixels in H. destruct ((w =? 0) || (h =? 0)); [discriminate|].
    destruct (lenN data =? h * row_bytes (w * cs) bpc); [exact H | discriminate].
  - intros data w h Hw Hh Hl. unfold m_from_gray. replace (lenN data =? w * h) with true by lia. cbn [negb].
    eexists. split; [reflexivity|]. split; [reflexivity|].
    assert (F : Forall (fun g : list N => length g = chn 0) (map (fun b => [b]) data)).
    { apply Forall_map. apply Forall_forall. intros; reflexivity. }
    pose proof (xobj_side 0 w h (map (fun b => [b]) data) ltac:(unfold ct8; cbn; tauto) Hw Hh F) as X.
    rewrite concat_singletons in X. rewrite map_length in X.
    change (m_image_xobj w h 0 (m_separate_alpha 0 data)) with (mkX (Z.of_N w) (Z.of_N h) 1 8 true data None) in X.
    rewrite X by (unfold lenN in Hl; lia). rewrite map_map. reflexivity.
  - intros data w h Hw Hh Hl.
    destruct (split_groups 4 ltac:(lia) (N.to_nat (h * w)) data) as (gs & E & F & L).
    { unfold lenN in Hl. lia. }
    unfold m_from_rgba. replace (lenN data =? w * h * 4) with true by lia. cbn [negb].
    pose proof (xobj_side 6 w h gs ltac:(unfold ct8; cbn; tauto) Hw Hh F ltac:(lia)) as X.
    rewrite <- E in X. unfold m_separate_alpha in X.
    change (6 =? 4) with false in X. change (6 =? 6) with true in X. cbv iota in X.
    rewrite E in *. rewrite sep4_concat in * by exact F. cbv iota beta in X. cbv iota beta.
    eexists. eexists. split; [reflexivity|]. split; [reflexivity|]. split.
    + rewrite rgba_pixels_groups by exact F. exact X.
    + cbn [m_data]. rewrite rgba_pixels_groups by exact F. rewrite map_map. reflexivity.
Qed.

(** * Non-vacuity: a 2x2 RGBA image with Paeth / Average rows satisfies every hypothesis *)
Definition ex_ihdr : bytes := [0;0;0;2; 0;0;0;2; 8; 6; 0; 0; 0].
Definition ex_raw : bytes := [4; 10;20;30;255; 250;5;7;128;   3; 1;2;3;4; 200;100;50;25].
Example png_model_eq_spec_8bit_nonvacuous :
  exists i ps, parse_ihdr ex_ihdr = Some i /\ i_bd i = 8 /\ i_il i = 0 /\ ct8 (i_ct i) /\
               spec_pixels ex_ihdr None None ex_raw = Some ps /\ length ps = 4%nat /\
               png_decodes_right ex_ihdr None None ex_raw = true /\ ~ known_class i None.
Proof.
  eexists. eexists. split; [reflexivity|]. split; [reflexivity|]. split; [reflexivity|].
  split; [unfold ct8; cbn; tauto|]. split; [vm_compute; reflexivity|]. split; [reflexivity|].
  split; [vm_compute; reflexivity|]. unfold known_class. cbn. intros [H|[H|[H|H]]]; congruence.
Qed.
Example raw_rgb_identity_nonvacuous :
  exists x, m_from_rgba [1;2;3;4; 5;6;7;8] 2 1 = Some x /\ xobj_pixels x = Some (rgba_pixels [1;2;3;4; 5;6;7;8]).
Proof. eexists. split; [reflexivity|]. vm_compute. reflexivity. Qed.

(** * Refutation witnesses on the pinned tree (faithful model): each is a valid PNG, accepted by the
    reference decoder, that the library rejects or embeds with other pixels *)
Definition refuted (P : ihdr -> option bytes -> Prop) : Prop :=
  exists ih plte trns raw i, parse_ihdr ih = Some i /\ P i trns /\
     spec_pixels ih plte trns raw <> None /\ png_decodes_right ih plte trns raw = false.
Ltac witness ih plte trns raw :=
  exists ih, plte, trns, raw; eexists; split; [reflexivity|]; split; [cbn; repeat split; try reflexivity; try discriminate|];
  split; [vm_compute; discriminate | vm_compute; reflexivity].

(** 1-bit greyscale, width 2: bytes_per_row is computed as w*ceil(bits/8)+1 = 3 instead of 2: rejected *)
Theorem png_subbyte_refuted : refuted (fun i _ => i_ct i = 0 /\ i_bd i = 1 /\ i_il i = 0).
Proof. witness [0;0;0;2; 0;0;0;1; 1; 0; 0;0;0] (@None bytes) (@None bytes) [0; 128]. Qed.
(** 1-bit greyscale, width 1: accepted, but the packed byte 0x80 is declared an 8-bit sample (128/255, not 1/1) *)
Theorem png_subbyte_w1_refuted : refuted (fun i _ => i_ct i = 0 /\ i_bd i = 1 /\ i_w i = 1).
Proof. witness [0;0;0;1; 0;0;0;1; 1; 0; 0;0;0] (@None bytes) (@None bytes) [0; 128]. Qed.
(** palette image: channels() = 3 for Palette, so one index byte per pixel is "insufficient data" *)
Theorem png_palette_refuted : refuted (fun i _ => i_ct i = 3 /\ i_bd i = 8 /\ i_il i = 0).
Proof. witness [0;0;0;1; 0;0;0;1; 8; 3; 0;0;0] (Some [255; 0; 0]) (@None bytes) [0; 0]. Qed.
(** 16-bit greyscale: both bytes of the sample stored, /BitsPerComponent 8 declared *)
Theorem png_16bit_refuted : refuted (fun i _ => i_ct i = 0 /\ i_bd i = 16 /\ i_il i = 0).
Proof. witness [0;0;0;1; 0;0;0;1; 16; 0; 0;0;0] (@None bytes) (@None bytes) [0; 18; 52]. Qed.
(** 16-bit greyscale + alpha: separate_alpha splits by bytes, the mask gets the low byte of the grey sample *)
Theorem png_16bit_alpha_refuted : refuted (fun i _ => i_ct i = 4 /\ i_bd i = 16 /\ i_il i = 0).
Proof. witness [0;0;0;1; 0;0;0;1; 16; 4; 0;0;0] (@None bytes) (@None bytes) [0; 255; 255; 0; 0]. Qed.
(** tRNS: the transparent colour is parsed and dropped; the pixel stays opaque *)
Theorem png_trns_refuted : refuted (fun i t => i_ct i = 0 /\ i_bd i = 8 /\ i_il i = 0 /\ t <> None).
Proof. witness [0;0;0;1; 0;0;0;1; 8; 0; 0;0;0] (@None bytes) (Some [0; 7]) [0; 7]. Qed.
(** Adam7: rejected with "Interlaced PNG not yet supported" *)
Theorem png_interlace_refuted : refuted (fun i _ => i_il i = 1 /\ i_bd i = 8 /\ i_ct i = 0).
Proof. witness [0;0;0;1; 0;0;0;1; 8; 0; 0;0;1] (@None bytes) (@None bytes) [0; 7]. Qed.

(** every witness class lies inside [known_class] *)
Lemma witnesses_in_known_class i t :
  (i_bd i = 1 \/ i_bd i = 16 \/ i_ct i = 3 \/ i_il i = 1 \/ t <> None) -> known_class i t.
Proof.
  unfold known_class. intros [H|[H|[H|[H|H]]]].
  - right; right; left. rewrite H. discriminate.
  - right; right; left. rewrite H. discriminate.
  - right; left. exact H.
  - left. rewrite H. discriminate.
  - right; right; right. exact H.
Qed.
