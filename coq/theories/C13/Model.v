(** C13 — text in embedded fonts: code-shaped models of writer/pdf_writer/mod.rs
    [generate_width_array] (sort + run grouping), [generate_cid_to_gid_map],
    [generate_tounicode_cmap_from_font] (bfrange / bfchar blocks) and text/mod.rs
    [build_show_text_op] (custom font: UTF-16 code units as 2-byte codes); ISO-shaped
    specifications: the /W lookup of ISO 32000-1 9.7.4.3, the CIDToGIDMap stream lookup of
    9.7.4.2, and the ToUnicode reference semantics of C26 ([ref_map]). *)
From OxVerif Require Import Base.Util C26.Model.
Open Scope N_scope.

(** * /W *)
Inductive welem := WList (c : N) (ws : list N) | WRange (c1 c2 w : N).

Definition emit (s e w : N) : welem := if s =? e then WList s [w] else WRange s e w.

(** the two nested while loops of [generate_width_array] over the sorted (cid, width) list: the
    current run [s..e] of width [w] is extended while the next cid is [e+1] with an equal width *)
Fixpoint w_go (s e w : N) (l : list (N * N)) : list welem :=
  match l with
  | [] => [emit s e w]
  | (c, w') :: r => if (c =? e + 1) && (w' =? w) then w_go s c w r
                    else emit s e w :: w_go c c w' r
  end.
Definition w_array (l : list (N * N)) : list welem :=
  match l with [] => [] | (c, w) :: r => w_go c c w r end.

(** ISO 9.7.4.3: [c [w1 ... wn]] gives widths to c .. c+n-1; [c1 c2 w] gives w to c1 .. c2;
    a CID not covered uses /DW ([None] here) *)
Fixpoint w_lookup (a : list welem) (c : N) : option N :=
  match a with
  | [] => None
  | WList c0 ws :: r =>
      if (c0 <=? c) && (c <? c0 + N.of_nat (length ws)) then nth_error ws (N.to_nat (c - c0))
      else w_lookup r c
  | WRange c1 c2 w :: r => if (c1 <=? c) && (c <=? c2) then Some w else w_lookup r c
  end.

Fixpoint assoc (l : list (N * N)) (c : N) : option N :=
  match l with
  | [] => None
  | (a, b) :: r => if a =? c then Some b else assoc r c
  end.

(** strictly ascending keys, all above [lo] *)
Fixpoint asc_from (lo : N) (l : list (N * N)) : Prop :=
  match l with
  | [] => True
  | (c, _) :: r => lo < c /\ asc_from c r
  end.
Definition sorted_unique (l : list (N * N)) : Prop :=
  match l with [] => True | (c, _) :: r => asc_from c r end.

(** width scaling of [get_glyph_widths]: design units to 1/1000 em, truncated, kept in a u16 *)
Definition scale_width (adv upem : N) : N :=
  if upem =? 0 then adv else ((adv * 1000) / upem) mod 65536.

(** * CIDToGIDMap *)
Fixpoint gid_stream (f : N -> N) (start : N) (n : nat) : bytes :=
  match n with
  | O => []
  | S k => (f start / 256) :: (f start mod 256) :: gid_stream f (start + 1) k
  end.
Definition gid_or0 (m : list (N * N)) (c : N) : N := match assoc m c with Some g => g | None => 0 end.
(** [generate_cid_to_gid_map]: (max+1)*2 zero bytes, then the gid of every mapped code point <= max *)
Definition cid_gid_map (m : list (N * N)) (maxc : N) : bytes := gid_stream (gid_or0 m) 0 (S (N.to_nat maxc)).
(** ISO 9.7.4.2: the glyph index for CID c is the big-endian pair at byte 2c; CIDs past the end of
    the stream have no entry (glyph 0) *)
Definition stream_gid (s : bytes) (c : N) : N :=
  nth (2 * N.to_nat c) s 0 * 256 + nth (2 * N.to_nat c + 1) s 0.

(** * Shown codes *)
Definition is_high (u : N) : bool := (0xD800 <=? u) && (u <=? 0xDBFF).
Definition is_low (u : N) : bool := (0xDC00 <=? u) && (u <=? 0xDFFF).
(** [str::encode_utf16] *)
Definition units_of_cp (cp : N) : list N :=
  if cp <? 0x10000 then [cp]
  else [0xD800 + (cp - 0x10000) / 1024; 0xDC00 + (cp - 0x10000) mod 1024].
Definition show (s : list N) : list N := flat_map units_of_cp s.
Definition code2 (u : N) : bytes := [u / 256; u mod 256].
Definition codes_of (units : list N) : list bytes := List.map code2 units.

(** * ToUnicode *)
Fixpoint run_len (prev : N) (l : list N) (budget : nat) : nat :=
  match budget, l with
  | S b, c :: r => if c =? prev + 1 then S (run_len c r b) else O
  | _, _ => O
  end.

(** [generate_tounicode_cmap_from_font] over the sorted used code points: a run of consecutive
    code points (at most 100) becomes one bfrange; otherwise the next up to 100 entries become one
    bfchar block *)
Fixpoint tu_defs (fuel : nat) (l : list N) : list def :=
  match fuel, l with
  | S f, c :: r =>
      match run_len c r 99 with
      | S k => DRange (code2 c) (code2 (c + N.of_nat (S k))) (code2 c) :: tu_defs f (skipn (S k) r)
      | O => List.map (fun x => DChar (code2 x) (code2 x)) (firstn 100 l) ++ tu_defs f (skipn 100 l)
      end
  | _, _ => []
  end.

Fixpoint uinsert (x : N) (l : list N) : list N :=
  match l with
  | [] => [x]
  | y :: r => if x <? y then x :: l else if x =? y then l else y :: uinsert x r
  end.
Definition usort (l : list N) : list N := fold_right uinsert [] l.

(** the used set is filtered to the BMP before the CMap is generated *)
Definition used_bmp (s : list N) : list N := usort (filter (fun c => c <=? 0xFFFF) s).
Definition cmap_of (s : list N) : list def := let u := used_bmp s in tu_defs (length u) u.

Definition cs16 : list (bytes * bytes) := [([0; 0], [255; 255])].

(** destination bytes as UTF-16BE code units *)
Fixpoint units_of_bytes (d : bytes) : list N :=
  match d with
  | a :: b :: r => (a * 256 + b) :: units_of_bytes r
  | _ => []
  end.

Fixpoint dec16 (hi : option N) (u : list N) : list N :=
  match u with
  | [] => match hi with Some h => [h] | None => [] end
  | x :: r =>
      match hi with
      | Some h => if is_low x then (0x10000 + (h - 0xD800) * 1024 + (x - 0xDC00)) :: dec16 None r
                  else if is_high x then h :: dec16 (Some x) r else h :: x :: dec16 None r
      | None => if is_high x then dec16 (Some x) r else x :: dec16 None r
      end
  end.

(** reading text back: every shown code goes through the reference ToUnicode semantics (C26); an
    unmapped code contributes nothing; the units are read as UTF-16 *)
Definition to_unicode (cs : list (bytes * bytes)) (ds : list def) (codes : list bytes) : list N :=
  dec16 None (flat_map (fun code => match ref_map cs ds code with
                                    | Some d => units_of_bytes d
                                    | None => [] end) codes).

Definition bmp (s : list N) : Prop := forall c, In c s -> c < 0x10000 /\ is_high c = false /\ is_low c = false.

(** * Correspondence cases *)
Definition welem_eqb (a b : welem) : bool :=
  match a, b with
  | WList c ws, WList c' ws' => (c =? c') && list_eqb N.eqb ws ws'
  | WRange a1 a2 w, WRange b1 b2 w' => (a1 =? b1) && (a2 =? b2) && (w =? w')
  | _, _ => false
  end.

Definition def_eqb (a b : def) : bool :=
  match a, b with
  | DChar s d, DChar s' d' => bytes_eqb s s' && bytes_eqb d d'
  | DRange l h d, DRange l' h' d' => bytes_eqb l l' && bytes_eqb h h' && bytes_eqb d d'
  | DArr l h ds, DArr l' h' ds' => bytes_eqb l l' && bytes_eqb h h' && list_eqb bytes_eqb ds ds'
  | _, _ => false
  end.

Record fcase := {
  f_text : list N;                   (* the code points drawn with this font, in drawing order *)
  f_used : list N;                   (* the characters the document tracked for this font *)
  f_truetype : bool;                 (* CIDFontType2 (has /CIDToGIDMap) *)
  f_widths : list (N * N);           (* sorted (code point, scaled advance of the ORIGINAL font) for the used
                                        characters the font maps (harness reader: cmap, hmtx, unitsPerEm) *)
  f_adv : list (N * N * N);          (* (code point, hmtx advance of its glyph, unitsPerEm) from the harness reader *)
  f_w : list welem;                  (* /W of the written file *)
  f_gidmap : list (N * N);           (* decoded /CIDToGIDMap stream, sparse: (cid, gid) of its non-zero entries *)
  f_gidlen : N;                      (* length of the decoded stream in bytes *)
  f_numglyphs : N;                   (* numGlyphs of the EMBEDDED font program (TrueType) *)
  f_emb_adv : list (N * N);          (* (code point, advance in the embedded program of the glyph its CID resolves to) *)
  f_cs : list (bytes * bytes);       (* /ToUnicode as tokenized by the harness: code space *)
  f_tu : list section;               (* /ToUnicode sections *)
  f_shown : list bytes               (* 2-byte codes of the show operands for this font, in order *)
}.

Definition nows (s : list N) : list N := filter (fun c => negb ((c =? 32) || (c =? 10) || (c =? 13) || (c =? 9))) s.

(** the property on one font of a written document (specification side only):
    - each used character's declared width (ISO lookup in /W by its code point) is the advance of its
      glyph in the font, scaled to 1/1000 em the way the writer scales;
    - (TrueType) each shown CID resolves through /CIDToGIDMap to a glyph that exists in the embedded
      program, and that glyph has the advance of the character's glyph in the original font;
    - the shown codes read through /ToUnicode (reference semantics) give back the text. *)
Definition width_ok (c : fcase) (x : N * N * N) : bool :=
  let '(cp, adv, upem) := x in
  option_eqb N.eqb (w_lookup (f_w c) cp) (Some (scale_width adv upem)).

Definition sparse_gid (c : fcase) (cid : N) : N :=
  if 2 * cid + 1 <? f_gidlen c then gid_or0 (f_gidmap c) cid else 0.

Definition glyph_ok (c : fcase) (code : bytes) : bool :=
  if f_truetype c then sparse_gid c (be code) <? f_numglyphs c else true.

Definition emb_adv_ok (c : fcase) (x : N * N) : bool :=
  let '(cp, a) := x in
  match List.find (fun y : N * N * N => fst (fst y) =? cp) (f_adv c) with
  | Some (_, adv, _) => a =? adv
  | None => true
  end.

Definition fprop_ok (c : fcase) : bool :=
  forallb (width_ok c) (f_adv c)
  && forallb (glyph_ok c) (f_shown c)
  && forallb (emb_adv_ok c) (f_emb_adv c)
  && list_eqb N.eqb (nows (to_unicode (f_cs c) (defs_of (f_tu c)) (f_shown c))) (nows (f_text c)).

(** model = implementation: /W is [w_array] of the sorted scaled widths, the ToUnicode definitions
    are [cmap_of] of the used characters, the shown codes are [codes_of (show text)] *)
Definition fmodel_ok (c : fcase) : bool :=
  list_eqb welem_eqb (w_array (f_widths c)) (f_w c)
  && list_eqb def_eqb (cmap_of (f_used c)) (defs_of (f_tu c))
  && list_eqb bytes_eqb (codes_of (show (f_text c))) (f_shown c).

(** astral text (a code point above 0xFFFF drawn with the font) is the known-finding class: bit 4 is
    set when the property fails and every failing font of the case draws astral text *)
Definition has_astral (c : fcase) : bool := existsb (fun x => 0xFFFF <? x) (f_text c).

(** one document: its fonts, the text drawn (drawing order = top to bottom), the library's extraction
    of the page; white space is not compared *)
Definition case_code (d : list fcase * list N * list N) : N :=
  let '(fs, expected, extracted) := d in
  let m_ok := forallb fmodel_ok fs in
  let bad := filter (fun c => negb (fprop_ok c)) fs in
  let ext_ok := list_eqb N.eqb (nows extracted) (nows expected) in
  let p_ok := match bad with [] => ext_ok | _ => false end in
  code_of m_ok p_ok
  + (if negb p_ok && forallb has_astral bad && (ext_ok || existsb has_astral fs) then 4 else 0).
