(** C13 — proofs: /W run grouping against the ISO lookup (all width lists), CIDToGIDMap stream,
    ToUnicode generation inverts the shown codes for all BMP strings; astral text refuted. *)
From OxVerif Require Import Base.Util C26.Model C13.Model.
Open Scope N_scope.

(** * /W *)
Lemma emit_lookup s e w rest c : s <= e ->
  w_lookup (emit s e w :: rest) c = if (s <=? c) && (c <=? e) then Some w else w_lookup rest c.
Proof.
  intros Hse. unfold emit. destruct (s =? e) eqn:E.
  - apply N.eqb_eq in E. subst e. cbn [w_lookup length].
    destruct (s <=? c) eqn:A; destruct (c <=? s) eqn:B; destruct (c <? s + N.of_nat 1) eqn:C; cbn;
      try reflexivity; try (apply N.leb_le in A); try (apply N.leb_le in B); try (apply N.leb_gt in A);
      try (apply N.leb_gt in B); try (apply N.ltb_lt in C); try (apply N.ltb_ge in C); try lia.
    replace (c - s) with 0 by lia. reflexivity.
  - reflexivity.
Qed.

Lemma assoc_above lo l c : asc_from lo l -> c <= lo -> assoc l c = None.
Proof.
  revert lo. induction l as [|[a b] l IH]; intros lo H Hc; [reflexivity|].
  cbn in *. destruct H as [H1 H2]. destruct (a =? c) eqn:E; [apply N.eqb_eq in E; lia|].
  apply (IH a); [exact H2 | lia].
Qed.

Lemma w_go_lookup l : forall s e w c, s <= e -> asc_from e l ->
  w_lookup (w_go s e w l) c = if (s <=? c) && (c <=? e) then Some w else assoc l c.
Proof.
  induction l as [|[c' w'] l IH]; intros s e w c Hse Hasc.
  - cbn [w_go]. rewrite emit_lookup by exact Hse. reflexivity.
  - cbn [w_go assoc]. destruct Hasc as [Hlt Hasc].
    destruct ((c' =? e + 1) && (w' =? w)) eqn:E.
    + apply andb_true_iff in E. destruct E as [E1 E2]. apply N.eqb_eq in E1, E2. subst c' w'.
      rewrite IH by (try lia; exact Hasc).
      destruct (s <=? c) eqn:A; destruct (c <=? e) eqn:B; destruct (c <=? e + 1) eqn:C;
        destruct (e + 1 =? c) eqn:D; cbn; try reflexivity;
        try (apply N.leb_le in A); try (apply N.leb_le in B); try (apply N.leb_le in C);
        try (apply N.leb_gt in A); try (apply N.leb_gt in B); try (apply N.leb_gt in C);
        try (apply N.eqb_eq in D); try (apply N.eqb_neq in D); try lia.
      all: try (symmetry; apply (assoc_above (e + 1)); [exact Hasc | lia]).
    + rewrite emit_lookup by exact Hse.
      rewrite IH by (try lia; exact Hasc).
      destruct (s <=? c) eqn:A; destruct (c <=? e) eqn:B; cbn; try reflexivity;
        destruct (c' <=? c) eqn:C; destruct (c <=? c') eqn:D; destruct (c' =? c) eqn:F; cbn; try reflexivity;
        try (apply N.leb_le in A); try (apply N.leb_le in B); try (apply N.leb_le in C); try (apply N.leb_le in D);
        try (apply N.leb_gt in A); try (apply N.leb_gt in B); try (apply N.leb_gt in C); try (apply N.leb_gt in D);
        try (apply N.eqb_eq in F); try (apply N.eqb_neq in F); try lia.
      all: try (symmetry; apply (assoc_above c'); [exact Hasc | lia]).
Qed.

(** for every sorted width list and every CID, the ISO lookup in the generated /W returns exactly
    the listed width (and /DW for a CID that is not listed) *)
Theorem w_lookup_correct : forall ws c, sorted_unique ws -> w_lookup (w_array ws) c = assoc ws c.
Proof.
  intros [|[c0 w0] l] c H; [reflexivity|]. cbn [w_array assoc]. cbn in H.
  rewrite w_go_lookup by (try lia; exact H).
  destruct (c0 <=? c) eqn:A; destruct (c <=? c0) eqn:B; destruct (c0 =? c) eqn:C; cbn; try reflexivity;
    try (apply N.leb_le in A); try (apply N.leb_le in B); try (apply N.leb_gt in A); try (apply N.leb_gt in B);
    try (apply N.eqb_eq in C); try (apply N.eqb_neq in C); try lia.
  all: try (symmetry; apply (assoc_above c0); [exact H | lia]).
Qed.

Example w_lookup_nonvacuous :
  let ws := [(32, 250); (65, 600); (66, 600); (67, 600); (68, 611); (70, 611); (0x1F600, 900)] in
  sorted_unique ws /\ w_array ws = [WList 32 [250]; WRange 65 67 600; WList 68 [611]; WList 70 [611]; WList 0x1F600 [900]]
  /\ w_lookup (w_array ws) 67 = Some 600 /\ w_lookup (w_array ws) 69 = None.
Proof. vm_compute. repeat split; lia. Qed.

(** * CIDToGIDMap *)
Lemma gid_stream_nth f : forall n start i, (i < n)%nat ->
  nth (2 * i) (gid_stream f start n) 0 = f (start + N.of_nat i) / 256
  /\ nth (2 * i + 1) (gid_stream f start n) 0 = f (start + N.of_nat i) mod 256.
Proof.
  induction n as [|n IH]; intros start i Hi; [lia|].
  destruct i as [|i].
  - cbn. rewrite N.add_0_r. split; reflexivity.
  - replace (2 * S i)%nat with (S (S (2 * i))) by lia. cbn [gid_stream nth Nat.add].
    destruct (IH (start + 1) i) as [H1 H2]; [lia|].
    replace (start + N.of_nat (S i)) with (start + 1 + N.of_nat i) by lia.
    rewrite H1. replace (S (S (2 * i)) + 1)%nat with (S (S (2 * i + 1))) by lia. cbn [nth].
    rewrite H2. split; reflexivity.
Qed.

(** the stream maps every CID up to the maximum to the glyph the mapping gives it, and to glyph 0
    when the mapping has no entry *)
Theorem cid_gid_map_correct : forall m maxc c, c <= maxc ->
  stream_gid (cid_gid_map m maxc) c = gid_or0 m c.
Proof.
  intros m maxc c Hc. unfold stream_gid, cid_gid_map.
  destruct (gid_stream_nth (gid_or0 m) (S (N.to_nat maxc)) 0 (N.to_nat c)) as [H1 H2]; [lia|].
  rewrite H1, H2. rewrite N.add_0_l, N2Nat.id.
  pose proof (N.div_mod' (gid_or0 m c) 256). lia.
Qed.

Example cid_gid_map_nonvacuous :
  cid_gid_map [(65, 300); (66, 7)] 66 <> [] /\ stream_gid (cid_gid_map [(65, 300); (66, 7)] 66) 65 = 300.
Proof. vm_compute. split; [discriminate|reflexivity]. Qed.

(** * ToUnicode *)
Definition code2_facts (x : N) : bool :=
  (be (code2 x) =? x) && bytes_eqb (to_be 2 x) (code2 x) && in_cs cs16 (code2 x)
  && list_eqb N.eqb (units_of_bytes (code2 x)) [x].

Lemma code2_sweep : allb code2_facts 65536 = true.
Proof. vm_compute. reflexivity. Qed.

Lemma code2_ok x : x < 65536 ->
  be (code2 x) = x /\ to_be 2 x = code2 x /\ in_cs cs16 (code2 x) = true /\ units_of_bytes (code2 x) = [x].
Proof.
  intros H. pose proof (allb_spec _ _ code2_sweep x H) as F. unfold code2_facts in F.
  repeat (apply andb_true_iff in F; destruct F as [F ?]).
  repeat split.
  - apply N.eqb_eq. exact F.
  - apply bytes_eqb_eq. assumption.
  - assumption.
  - apply (list_eqb_spec N.eqb); [intros; apply N.eqb_eq | assumption].
Qed.

Lemma code2_inj x y : x < 65536 -> y < 65536 -> code2 x = code2 y -> x = y.
Proof.
  intros Hx Hy E. destruct (code2_ok x Hx) as [A _]. destruct (code2_ok y Hy) as [B _]. congruence.
Qed.

(** the shapes [tu_defs] produces *)
Definition tu_shape (d : def) : Prop :=
  (exists y, y < 65536 /\ d = DChar (code2 y) (code2 y))
  \/ (exists c hi, c < 65536 /\ d = DRange (code2 c) (code2 hi) (code2 c)).

Lemma in_skipn {A} (x : A) n l : In x (skipn n l) -> In x l.
Proof. intros H. rewrite <- (firstn_skipn n l). apply in_or_app. right. exact H. Qed.
Lemma in_firstn {A} (x : A) n l : In x (firstn n l) -> In x l.
Proof. intros H. rewrite <- (firstn_skipn n l). apply in_or_app. left. exact H. Qed.
Lemma skipn_length_le {A} n (l : list A) : (length (skipn n l) <= length l)%nat.
Proof. rewrite skipn_length. lia. Qed.

Lemma tu_defs_shape : forall fuel l, (forall y, In y l -> y < 65536) ->
  forall d, In d (tu_defs fuel l) -> tu_shape d.
Proof.
  induction fuel as [|f IH]; intros l Hl d Hd; [destruct l; destruct Hd|].
  destruct l as [|c r]; [destruct Hd|]. cbn [tu_defs] in Hd.
  destruct (run_len c r 99) as [|k].
  - apply in_app_or in Hd. destruct Hd as [Hd|Hd].
    + apply in_map_iff in Hd. destruct Hd as [y [<- Hy]]. left. exists y. split; [|reflexivity].
      apply Hl. eapply in_firstn. exact Hy.
    + apply (IH (skipn 100 (c :: r))); [|exact Hd]. intros y Hy. apply Hl. eapply in_skipn. exact Hy.
  - destruct Hd as [<-|Hd].
    + right. exists c, (c + N.of_nat (S k)). split; [apply Hl; left; reflexivity | reflexivity].
    + apply (IH (skipn (S k) r)); [|exact Hd]. intros y Hy. apply Hl. right. eapply in_skipn. exact Hy.
Qed.

(** every definition gives a code either nothing or the code itself *)
Lemma tu_shape_ident d x v : tu_shape d -> x < 65536 -> def_value d (code2 x) = Some v -> v = code2 x.
Proof.
  intros [[y [Hy ->]]|[c [hi [Hc ->]]]] Hx H; cbn [def_value] in H.
  - destruct (bytes_eqb (code2 y) (code2 x)) eqn:E; [|discriminate].
    apply bytes_eqb_eq in E. injection H as <-. exact E.
  - destruct (in_range (code2 c) (code2 hi) (code2 x)) eqn:E; [|discriminate]. injection H as <-.
    unfold in_range in E. repeat (apply andb_true_iff in E; destruct E as [E ?]).
    destruct (code2_ok x Hx) as [Bx [Tx _]]. destruct (code2_ok c Hc) as [Bc _].
    rewrite Bx, Bc in *. apply N.leb_le in H0.
    unfold be_add. rewrite Bc. change (length (code2 c)) with 2%nat.
    replace ((c + (x - c)) mod 256 ^ N.of_nat 2) with x; [exact Tx|].
    replace (c + (x - c)) with x by lia. change (256 ^ N.of_nat 2) with 65536.
    symmetry. apply N.mod_small. exact Hx.
Qed.

Lemma run_len_spec : forall b r c x, In x (firstn (run_len c r b) r) ->
  c < x /\ x <= c + N.of_nat (run_len c r b).
Proof.
  induction b as [|b IH]; intros r c x H; [destruct r; destruct H|].
  destruct r as [|y r]; [destruct H|]. cbn [run_len] in *.
  destruct (y =? c + 1) eqn:E; [|destruct H]. apply N.eqb_eq in E. subst y.
  cbn [firstn] in H. destruct H as [<-|H]; [lia|].
  destruct (IH r (c + 1) x H). lia.
Qed.

Lemma run_len_last : forall b r c k, run_len c r b = S k -> In (c + N.of_nat (S k)) r.
Proof.
  induction b as [|b IH]; intros r c k H; [destruct r; discriminate|].
  destruct r as [|y r]; [discriminate|]. cbn [run_len] in H.
  destruct (y =? c + 1) eqn:E; [|discriminate]. apply N.eqb_eq in E. subst y.
  injection H as H. destruct k as [|k].
  - left. lia.
  - right. specialize (IH r (c + 1) k H). replace (c + N.of_nat (S (S k))) with (c + 1 + N.of_nat (S k)) by lia.
    exact IH.
Qed.

Lemma tu_defs_cover : forall fuel l, (length l <= fuel)%nat -> (forall y, In y l -> y < 65536) ->
  forall x, In x l -> exists d, In d (tu_defs fuel l) /\ def_value d (code2 x) <> None.
Proof.
  induction fuel as [|f IH]; intros l Hlen Hl x Hx; [destruct l; [destruct Hx | cbn in Hlen; lia]|].
  destruct l as [|c r]; [destruct Hx|]. cbn [tu_defs]. cbn [length] in Hlen.
  destruct (run_len c r 99) as [|k] eqn:Er.
  - rewrite <- (firstn_skipn 100 (c :: r)) in Hx. apply in_app_or in Hx. destruct Hx as [Hx|Hx].
    + exists (DChar (code2 x) (code2 x)). split.
      * apply in_or_app. left. apply in_map_iff. exists x. split; [reflexivity|exact Hx].
      * cbn [def_value]. rewrite (proj2 (bytes_eqb_eq (code2 x) (code2 x)) eq_refl). discriminate.
    + destruct (IH (skipn 100 (c :: r))) with (x := x) as [d [Hd Hv]].
      * pose proof (skipn_length_le 99 r). change (skipn 100 (c :: r)) with (skipn 99 r). lia.
      * intros y Hy. apply Hl. eapply in_skipn. exact Hy.
      * exact Hx.
      * exists d. split; [apply in_or_app; right; exact Hd | exact Hv].
  - assert (Hc : c < 65536) by (apply Hl; left; reflexivity).
    assert (Hhi : c + N.of_nat (S k) < 65536) by (apply Hl; right; eapply run_len_last; exact Er).
    assert (Hcov : forall z, c <= z -> z <= c + N.of_nat (S k) ->
              def_value (DRange (code2 c) (code2 (c + N.of_nat (S k))) (code2 c)) (code2 z) <> None).
    { intros z Hz1 Hz2. assert (Hz : z < 65536) by lia. cbn [def_value]. unfold in_range.
      destruct (code2_ok z Hz) as [Bz _]. destruct (code2_ok c Hc) as [Bc _]. destruct (code2_ok _ Hhi) as [Bh _].
      rewrite Bz, Bc, Bh. change (same_len (code2 z) (code2 c)) with true.
      change (same_len (code2 z) (code2 (c + N.of_nat (S k)))) with true.
      replace (c <=? z) with true by (symmetry; apply N.leb_le; exact Hz1).
      replace (z <=? c + N.of_nat (S k)) with true by (symmetry; apply N.leb_le; exact Hz2).
      discriminate. }
    destruct Hx as [<-|Hx].
    + eexists. split; [left; reflexivity|]. apply Hcov; lia.
    + rewrite <- (firstn_skipn (S k) r) in Hx. apply in_app_or in Hx. destruct Hx as [Hx|Hx].
      * rewrite <- Er in Hx. destruct (run_len_spec _ _ _ _ Hx) as [H1 H2]. rewrite Er in H2.
        eexists. split; [left; reflexivity|]. apply Hcov; lia.
      * destruct (IH (skipn (S k) r)) with (x := x) as [d [Hd Hv]].
        -- pose proof (skipn_length_le (S k) r). lia.
        -- intros y Hy. apply Hl. right. eapply in_skipn. exact Hy.
        -- exact Hx.
        -- exists d. split; [right; exact Hd | exact Hv].
Qed.

Lemma last_all_eq (v : bytes) vals : vals <> [] -> (forall y, In y vals -> y = v) ->
  last (List.map Some vals) None = Some v.
Proof.
  induction vals as [|a vals IH]; intros Hne Hall; [congruence|].
  destruct vals as [|b vals].
  - cbn. f_equal. apply Hall. left. reflexivity.
  - change (last (List.map Some (a :: b :: vals)) None) with (last (List.map Some (b :: vals)) None).
    apply IH; [discriminate|]. intros y Hy. apply Hall. right. exact Hy.
Qed.

Lemma in_filter_some_c26 (x : bytes) l : In x (filter_some l) <-> In (Some x) l.
Proof.
  induction l as [|[y|] l IH]; cbn; [tauto| |].
  - rewrite IH. split; intros [H|H]; auto; left; congruence.
  - rewrite IH. split; [auto|]. intros [H|H]; [discriminate|exact H].
Qed.

Lemma ref_map_ident ds x : x < 65536 -> (forall d, In d ds -> tu_shape d) ->
  (exists d, In d ds /\ def_value d (code2 x) <> None) ->
  ref_map cs16 ds (code2 x) = Some (code2 x).
Proof.
  intros Hx Hshape [d [Hd Hv]]. unfold ref_map.
  destruct (code2_ok x Hx) as [_ [_ [-> _]]].
  apply last_all_eq.
  - unfold ref_values. intros E. destruct (def_value d (code2 x)) as [v|] eqn:Ev; [|congruence].
    assert (In v (filter_some (List.map (fun d0 => def_value d0 (code2 x)) ds))).
    { apply in_filter_some_c26. apply in_map_iff. exists d. split; assumption. }
    rewrite E in H. destruct H.
  - intros y Hy. unfold ref_values in Hy. apply in_filter_some_c26 in Hy. apply in_map_iff in Hy.
    destruct Hy as [d0 [Hd0 Hin]]. eapply tu_shape_ident; [apply Hshape; exact Hin | exact Hx | exact Hd0].
Qed.

Lemma uinsert_in x y l : In y (uinsert x l) <-> y = x \/ In y l.
Proof.
  induction l as [|z l IH]; cbn; [intuition|].
  destruct (x <? z); cbn; [intuition|]. destruct (x =? z) eqn:E; cbn.
  - apply N.eqb_eq in E. subst. intuition.
  - rewrite IH. intuition.
Qed.
Lemma usort_in y l : In y (usort l) <-> In y l.
Proof. induction l as [|x l IH]; cbn; [tauto|]. rewrite uinsert_in, IH. intuition. Qed.

Lemma used_bmp_in s x : In x (used_bmp s) <-> In x s /\ x < 65536.
Proof.
  unfold used_bmp. rewrite usort_in, filter_In. rewrite N.leb_le. split; intros [A B]; split; auto; lia.
Qed.

Lemma dec16_bmp s : (forall c, In c s -> is_high c = false /\ is_low c = false) -> dec16 None s = s.
Proof.
  induction s as [|x s IH]; intros H; [reflexivity|]. cbn [dec16].
  destruct (H x (or_introl eq_refl)) as [-> _]. rewrite IH; [reflexivity|].
  intros c Hc. apply H. right. exact Hc.
Qed.

Lemma show_bmp s : bmp s -> show s = s.
Proof.
  induction s as [|x s IH]; intros H; [reflexivity|]. cbn [show flat_map]. unfold units_of_cp.
  destruct (H x (or_introl eq_refl)) as [Hx _]. replace (x <? 65536) with true by (symmetry; apply N.ltb_lt; exact Hx).
  cbn [app]. f_equal. apply IH. intros c Hc. apply H. right. exact Hc.
Qed.

(** every BMP string drawn with a custom font reads back exactly through the generated ToUnicode
    CMap (reference semantics of C26) *)
Theorem tounicode_inverts_show : forall s, bmp s ->
  to_unicode cs16 (cmap_of s) (codes_of (show s)) = s.
Proof.
  intros s Hb. rewrite (show_bmp s Hb). unfold to_unicode, codes_of.
  assert (Hflat : forall t, (forall c, In c t -> In c s) ->
            flat_map (fun code => match ref_map cs16 (cmap_of s) code with
                                  | Some d => units_of_bytes d | None => [] end) (List.map code2 t) = t).
  { induction t as [|x t IH]; intros Ht; [reflexivity|]. cbn [List.map flat_map].
    assert (Hx : x < 65536) by (apply Hb; apply Ht; left; reflexivity).
    rewrite ref_map_ident.
    - destruct (code2_ok x Hx) as [_ [_ [_ ->]]]. cbn [app]. f_equal. apply IH. intros c Hc. apply Ht. right. exact Hc.
    - exact Hx.
    - unfold cmap_of. apply tu_defs_shape. intros y Hy. apply used_bmp_in in Hy. apply Hy.
    - unfold cmap_of. apply tu_defs_cover; [lia | intros y Hy; apply used_bmp_in in Hy; apply Hy |].
      apply used_bmp_in. split; [apply Ht; left; reflexivity | exact Hx]. }
  rewrite Hflat by auto. apply dec16_bmp. intros c Hc. apply Hb. exact Hc.
Qed.

Example tounicode_nonvacuous :
  let s := [72; 233; 108; 108; 111; 32; 0x416; 0x417; 0x418; 0x3A9; 72] in
  bmp s /\ cmap_of s <> [] /\ to_unicode cs16 (cmap_of s) (codes_of (show s)) = s.
Proof.
  split; [|split; [vm_compute; discriminate | vm_compute; reflexivity]].
  intros c Hc. cbn in Hc. repeat (destruct Hc as [<-|Hc]; [vm_compute; repeat split; reflexivity|]). destruct Hc.
Qed.

(** astral text: the content stream carries the surrogate code units, the generated CMap has no entry
    for them (the used set is filtered to the BMP), so the text does not read back *)
Theorem tounicode_astral_refuted : exists s,
  (exists c, In c s /\ 0xFFFF < c) /\ to_unicode cs16 (cmap_of s) (codes_of (show s)) <> s.
Proof.
  exists [65; 0x1F600]. split; [exists 0x1F600; split; [right; left; reflexivity | reflexivity]|].
  vm_compute. discriminate.
Qed.

(** /W is keyed by code point while the content uses code units: an astral character's width entry is
    never reached by any 2-byte CID *)
Theorem w_astral_unreachable : forall ws c u, sorted_unique ws -> 0xFFFF < c -> u < 65536 ->
  assoc ws u = None -> w_lookup (w_array ws) u = None.
Proof. intros ws c u H _ _ Hn. rewrite w_lookup_correct by exact H. exact Hn. Qed.
