(** C04 — proofs about the model in Model.v *)
From OxVerif Require Import Base.Util C04.Model.

(** * association lists *)
Lemma mfind_minsert {V} k (v : V) m n :
  mfind n (minsert k v m) = if k =? n then Some v else mfind n m.
Proof. reflexivity. Qed.

Lemma mfind_mremove_eq {V} k (m : amap V) : mfind k (mremove k m) = None.
Proof.
  induction m as [|[k' v] r IH]; cbn; [reflexivity|].
  destruct (k' =? k) eqn:E; [exact IH|]. cbn. rewrite E. exact IH.
Qed.

Lemma mfind_mremove_neq {V} k n (m : amap V) : k <> n -> mfind n (mremove k m) = mfind n m.
Proof.
  intro H. induction m as [|[k' v] r IH]; cbn; [reflexivity|].
  destruct (k' =? k) eqn:E.
  - apply N.eqb_eq in E. subst k'. destruct (k =? n) eqn:E2; [apply N.eqb_eq in E2; contradiction|exact IH].
  - cbn. destruct (k' =? n); [reflexivity|exact IH].
Qed.

(** * what a table says about one object number *)
Definition view (t : tbl) (n : N) : option def :=
  match mfind n (entries t) with
  | None => None
  | Some e =>
      match mfind n (ext t) with
      | Some (s, i) => Some (InStm s i)
      | None => if e_use e then Some (Direct (e_off e)) else Some Free
      end
  end.

(** every compressed record has a basic entry (parse_primary inserts both) *)
Definition Inv (t : tbl) : Prop := forall n, mfind n (entries t) = None -> mfind n (ext t) = None.

Lemma inv_empty : Inv empty.
Proof. intros n _. reflexivity. Qed.

Lemma lookup_view t n : Inv t -> lookup t n = loc_of (view t n).
Proof.
  intro I. unfold lookup, view.
  destruct (mfind n (entries t)) as [e|] eqn:E.
  - destruct (mfind n (ext t)) as [[s i]|]; [reflexivity|]. destruct (e_use e); reflexivity.
  - rewrite (I n E). reflexivity.
Qed.

(** * one section *)
Lemma code_type_iso w0 t : code_type w0 t = iso_type w0 t.
Proof. unfold code_type, iso_type. destruct w0; reflexivity. Qed.

Lemma stream_insert_view w0 t k r n :
  Inv t ->
  Inv (stream_insert w0 t (k, r)) /\
  view (stream_insert w0 t (k, r)) n = if k =? n then Some (def_of_row w0 r) else view t n.
Proof.
  intro I. destruct r as [[ty f2] f3].
  unfold stream_insert, stream_insert_with, def_of_row. rewrite code_type_iso.
  destruct (iso_type w0 ty); split.
  all: try (intros m Hm; cbn in *; destruct (k =? m) eqn:E; [discriminate|];
            try (rewrite mfind_mremove_neq by (intro; subst; rewrite N.eqb_refl in E; discriminate));
            apply I; exact Hm).
  all: unfold view; cbn; destruct (k =? n) eqn:E.
  all: try (apply N.eqb_eq in E; subst k; rewrite ?mfind_mremove_eq; reflexivity).
  all: try (rewrite mfind_mremove_neq by (intro; subst; rewrite N.eqb_refl in E; discriminate)); reflexivity.
Qed.

Lemma stream_fold_view w0 n : forall l t,
  Inv t ->
  Inv (fold_left (stream_insert w0) l t) /\
  view (fold_left (stream_insert w0) l t) n =
    match rev_find (map (fun p => (fst p, def_of_row w0 (snd p))) l) n with
    | Some d => Some d
    | None => view t n
    end.
Proof.
  induction l as [|[k r] l IH]; intros t I; cbn [fold_left map rev_find fst snd].
  - split; [exact I|reflexivity].
  - destruct (stream_insert_view w0 t k r n I) as [I1 V1].
    destruct (IH _ I1) as [I2 V2]. split; [exact I2|].
    rewrite V2, V1.
    destruct (rev_find _ n); [reflexivity|]. destruct (k =? n); reflexivity.
Qed.

Lemma classic_fold_view n : forall l t,
  ext t = [] ->
  ext (fold_left classic_insert l t) = [] /\
  view (fold_left classic_insert l t) n =
    match rev_find (map (fun p => (fst p, def_of_centry (snd p))) l) n with
    | Some d => Some d
    | None => view t n
    end.
Proof.
  induction l as [|[k [off gen u]] l IH]; intros t X; cbn [fold_left map rev_find fst snd].
  - split; [exact X|reflexivity].
  - set (t1 := classic_insert t (k, CE off gen u)).
    assert (X1 : ext t1 = []) by exact X.
    destruct (IH t1 X1) as [X2 V2]. split; [exact X2|].
    rewrite V2. destruct (rev_find _ n); [reflexivity|].
    unfold view, t1. cbn. rewrite X. cbn.
    destruct (k =? n); [destruct u; reflexivity|reflexivity].
Qed.

Lemma inv_of_no_ext t : ext t = [] -> Inv t.
Proof. intros X n _. rewrite X. reflexivity. Qed.

Lemma parse_section_view s n :
  Inv (parse_section s) /\ view (parse_section s) n = rev_find (rev_of_section s) n.
Proof.
  destruct s as [subs|w0 subs]; cbn [parse_section rev_of_section].
  - destruct (classic_fold_view n (flatten subs) empty eq_refl) as [X V].
    split; [apply inv_of_no_ext; exact X|].
    rewrite V. destruct (rev_find _ n); reflexivity.
  - destruct (stream_fold_view w0 n (flatten subs) empty inv_empty) as [I V].
    split; [exact I|]. rewrite V. destruct (rev_find _ n); reflexivity.
Qed.

(** * the merge *)
Lemma merge_fold_facts t n : forall l m,
  Inv m ->
  Inv (fold_left (merge_step t) l m) /\
  mfind n (entries (fold_left (merge_step t) l m)) = match mfind n (entries m) with Some e => Some e | None => mfind n l end /\
  mfind n (ext (fold_left (merge_step t) l m)) = match mfind n (entries m) with
                     | Some _ => mfind n (ext m)
                     | None => match mfind n l with Some _ => mfind n (ext t) | None => None end
                     end.
Proof.
  induction l as [|[k e] l IH]; intros m I; cbn [fold_left].
  - cbn. split; [exact I|]. split.
    + destruct (mfind n (entries m)); reflexivity.
    + destruct (mfind n (entries m)) eqn:E; [reflexivity|]. apply I; exact E.
  - remember (merge_step t m (k, e)) as m1 eqn:Hm1. unfold merge_step in Hm1.
    destruct (mfind k (entries m)) as [e0|] eqn:Ek.
    + subst m1. destruct (IH m I) as [I' [E' X']]. split; [exact I'|]. cbn [mfind].
      destruct (k =? n) eqn:Ekn.
      * apply N.eqb_eq in Ekn. subst k. rewrite E', X', Ek. split; reflexivity.
      * split; [exact E'|exact X'].
    + assert (I1 : Inv m1).
      { intros j Hj. subst m1. cbn in *. destruct (k =? j) eqn:Ekj; [discriminate|].
        destruct (mfind k (ext t)); cbn; rewrite ?Ekj; apply I; exact Hj. }
      destruct (IH m1 I1) as [I' [E' X']]. split; [exact I'|].
      rewrite E', X'. subst m1. cbn [entries ext mfind minsert].
      destruct (k =? n) eqn:Ekn.
      * apply N.eqb_eq in Ekn. subst k. rewrite Ek. split; [reflexivity|].
        destruct (mfind n (ext t)); cbn; rewrite ?N.eqb_refl; [reflexivity|]. apply I; exact Ek.
      * split; [reflexivity|].
        destruct (mfind n (entries m)); [|reflexivity].
        destruct (mfind k (ext t)); cbn; rewrite ?Ekn; reflexivity.
Qed.

Lemma merge_one_view m t n :
  Inv m -> Inv t ->
  Inv (merge_one m t) /\
  view (merge_one m t) n = match view m n with Some d => Some d | None => view t n end.
Proof.
  intros Im It. unfold merge_one.
  destruct (merge_fold_facts t n (entries t) m Im) as [I' [E' X']].
  split; [exact I'|].
  unfold view at 1. rewrite E', X'. unfold view.
  destruct (mfind n (entries m)) as [e|] eqn:Em.
  - destruct (mfind n (ext m)) as [[s i]|]; [reflexivity|]. destruct (e_use e); reflexivity.
  - destruct (mfind n (entries t)) as [e|]; reflexivity.
Qed.

(** oldest-first formulation of the chain walk *)
Definition merge_file (tbls : list tbl) : tbl := fold_right (fun t m => merge_one m t) empty tbls.

Lemma merge_rev tbls : merge (rev tbls) = merge_file tbls.
Proof.
  unfold merge, merge_file.
  rewrite <- (rev_involutive tbls) at 2.
  symmetry. exact (fold_left_rev_right (fun t m => merge_one m t) (rev tbls) empty).
Qed.

Lemma merge_file_view secs n :
  Inv (merge_file (map parse_section secs)) /\
  view (merge_file (map parse_section secs)) n = spec_lookup (map rev_of_section secs) n.
Proof.
  induction secs as [|s newer IH]; cbn [map merge_file fold_right spec_lookup].
  - split; [exact inv_empty|reflexivity].
  - fold (merge_file (map parse_section newer)).
    destruct IH as [I V]. destruct (parse_section_view s n) as [Is Vs].
    destruct (merge_one_view _ _ n I Is) as [I' V']. split; [exact I'|].
    rewrite V', V, Vs. reflexivity.
Qed.

Lemma file_table_eq secs : file_table secs = merge_file (map parse_section secs).
Proof. unfold file_table. rewrite map_rev. apply merge_rev. Qed.

(** * main theorem *)
Theorem merge_newest_wins_lemma : forall secs n,
  lookup (file_table secs) n = loc_of (spec_lookup (map rev_of_section secs) n).
Proof.
  intros secs n. rewrite file_table_eq.
  destruct (merge_file_view secs n) as [I V].
  rewrite (lookup_view _ _ I), V. reflexivity.
Qed.

(** * add_headers_latest_wins *)
Definition hdr_step (ce : bool) (t : tbl) (kv : N * header) : tbl :=
  let '(n, (_, g, off)) := kv in
  if mmem n (entries t) || (ce && mmem n (ext t)) then t
  else {| entries := minsert n {| e_off := off; e_gen := g; e_use := true |} (entries t); ext := ext t |}.

Lemma add_headers_eq t hs ce :
  add_headers t hs ce = fold_left (hdr_step ce) (keys_once (latest_of hs) []) t.
Proof. reflexivity. Qed.

Lemma hdr_fold_keeps ce n : forall l t,
  mfind n (entries t) <> None ->
  mfind n (entries (fold_left (hdr_step ce) l t)) <> None /\
  lookup (fold_left (hdr_step ce) l t) n = lookup t n.
Proof.
  induction l as [|[k [[k0 g] off]] l IH]; intros t H; cbn [fold_left].
  - split; [exact H|reflexivity].
  - set (t1 := hdr_step ce t _).
    assert (E : t1 = if mmem k (entries t) || (ce && mmem k (ext t)) then t
                     else {| entries := minsert k {| e_off := off; e_gen := g; e_use := true |} (entries t); ext := ext t |})
      by reflexivity.
    clearbody t1.
    destruct (mmem k (entries t) || (ce && mmem k (ext t))) eqn:M.
    + subst t1. apply IH. exact H.
    + assert (Hk : (k =? n) = false).
      { apply orb_false_iff in M. destruct M as [M _]. unfold mmem in M.
        destruct (k =? n) eqn:Ekn; [|reflexivity]. apply N.eqb_eq in Ekn. subst k.
        destruct (mfind n (entries t)); [discriminate|contradiction]. }
      assert (H1 : mfind n (entries t1) <> None) by (subst t1; cbn; rewrite Hk; exact H).
      destruct (IH t1 H1) as [A B]. split; [exact A|]. rewrite B.
      subst t1. unfold lookup. cbn. rewrite Hk. reflexivity.
Qed.

(** the hybrid fill-in never changes the answer for an object some revision mentions *)
Theorem lenient_newest_wins_lemma : forall secs hs n,
  spec_lookup (map rev_of_section secs) n <> None ->
  lookup (file_table_lenient secs hs) n = loc_of (spec_lookup (map rev_of_section secs) n).
Proof.
  intros secs hs n H. unfold file_table_lenient. rewrite add_headers_eq.
  assert (P : mfind n (entries (file_table secs)) <> None).
  { rewrite file_table_eq. destruct (merge_file_view secs n) as [I V].
    unfold view in V. destruct (mfind n (entries _)); [discriminate|].
    rewrite <- V in H. contradiction. }
  destruct (hdr_fold_keeps true n (keys_once (latest_of hs) []) _ P) as [_ B]. rewrite B.
  apply merge_newest_wins_lemma.
Qed.

(** recovery: table built from the headers alone *)
Definition mk_hdr_entry (h : header) : entry := {| e_off := snd h; e_gen := snd (fst h); e_use := true |}.

Lemma hdr_fold_entries n : forall l t,
  ext (fold_left (hdr_step false) l t) = ext t /\
  mfind n (entries (fold_left (hdr_step false) l t)) =
    match mfind n (entries t) with
    | Some e => Some e
    | None => option_map mk_hdr_entry (mfind n l)
    end.
Proof.
  induction l as [|[k [[k0 g] off]] l IH]; intros t; cbn [fold_left].
  - split; [reflexivity|]. destruct (mfind n (entries t)); reflexivity.
  - set (t1 := hdr_step false t _).
    assert (E : t1 = if mmem k (entries t) || (false && mmem k (ext t)) then t
                     else {| entries := minsert k {| e_off := off; e_gen := g; e_use := true |} (entries t); ext := ext t |})
      by reflexivity.
    clearbody t1. cbn [andb] in E.
    rewrite orb_false_r in E. unfold mmem in E. cbn [mfind].
    destruct (mfind k (entries t)) as [e|] eqn:Ek.
    + subst t1. destruct (IH t) as [A B]. split; [exact A|]. rewrite B.
      destruct (k =? n) eqn:Ekn; [|reflexivity].
      apply N.eqb_eq in Ekn. subst k. rewrite Ek. reflexivity.
    + destruct (IH t1) as [A B]. split; [rewrite A; subst t1; reflexivity|].
      rewrite B. subst t1. cbn.
      destruct (k =? n) eqn:Ekn.
      * apply N.eqb_eq in Ekn. subst k. rewrite Ek. reflexivity.
      * reflexivity.
Qed.

Lemma keys_once_find {V} n : forall (m : amap V) seen,
  mfind n (keys_once m seen) = if existsb (N.eqb n) seen then None else mfind n m.
Proof.
  induction m as [|[k v] r IH]; intros seen; cbn [keys_once mfind].
  - destruct (existsb _ seen); reflexivity.
  - destruct (existsb (N.eqb k) seen) eqn:Ek.
    + rewrite IH. destruct (existsb (N.eqb n) seen) eqn:En; [reflexivity|].
      destruct (k =? n) eqn:Ekn; [|reflexivity].
      apply N.eqb_eq in Ekn. subst k. rewrite Ek in En. discriminate.
    + cbn [mfind]. destruct (k =? n) eqn:Ekn.
      * apply N.eqb_eq in Ekn. subst k. rewrite Ek. reflexivity.
      * rewrite IH. cbn [existsb]. rewrite (N.eqb_sym n k), Ekn. reflexivity.
Qed.

Lemma latest_fold_find n : forall hs (m0 : amap header),
  option_map (fun h : header => Direct (snd h))
    (mfind n (fold_left (fun m h => minsert (fst (fst h)) h m) hs m0)) =
  match spec_lookup (history_of_headers hs) n with
  | Some d => Some d
  | None => option_map (fun h : header => Direct (snd h)) (mfind n m0)
  end.
Proof.
  induction hs as [|h hs IH]; intros m0; cbn [fold_left history_of_headers map spec_lookup].
  - reflexivity.
  - fold (history_of_headers hs). rewrite IH.
    destruct (spec_lookup (history_of_headers hs) n); [reflexivity|].
    cbn. destruct (fst (fst h) =? n); reflexivity.
Qed.

Theorem recovery_latest_wins_lemma : forall hs n,
  lookup (recover hs) n = loc_of (spec_lookup (history_of_headers hs) n).
Proof.
  intros hs n. unfold recover. rewrite add_headers_eq.
  destruct (hdr_fold_entries n (keys_once (latest_of hs) []) empty) as [A B].
  unfold lookup. rewrite A, B. cbn [empty ext entries mfind].
  rewrite keys_once_find. cbn [existsb].
  assert (L : option_map (fun h : header => Direct (snd h)) (mfind n (latest_of hs)) =
              match spec_lookup (history_of_headers hs) n with Some d => Some d | None => None end)
    by exact (latest_fold_find n hs []).
  destruct (mfind n (latest_of hs)) as [h|]; cbn [option_map] in *.
  - destruct (spec_lookup (history_of_headers hs) n); [|discriminate].
    injection L as <-. reflexivity.
  - destruct (spec_lookup (history_of_headers hs) n); [discriminate|reflexivity].
Qed.

(** the fill-in / the scan never override an entry that a cross-reference section supplied *)
Theorem headers_never_override_lemma : forall t hs ce n,
  mfind n (entries t) <> None -> lookup (add_headers t hs ce) n = lookup t n.
Proof. intros. rewrite add_headers_eq. apply hdr_fold_keeps. assumption. Qed.

(** * the pinned tree (before the two fixes) does NOT have the property *)
Definition parse_section_pinned (s : section) : tbl :=
  match s with
  | Classic subs => fold_left classic_insert (flatten subs) empty
  | XStream w0 subs => fold_left (stream_insert_with code_type_pinned w0) (flatten subs) empty
  end.
Definition file_table_pinned (secs : list section) : tbl :=
  merge_pinned (map parse_section_pinned (rev secs)).

Definition wit_base : section := XStream 1 [(3, [(T2, 9, 0)]); (9, [(T1, 100, 0)])].
Lemma pinned_refuted_stale_direct :
  exists secs n, lookup (file_table_pinned secs) n <> loc_of (spec_lookup (map rev_of_section secs) n).
Proof. exists [wit_base; Classic [(3, [CE 500 0 true])]], 3. vm_compute. discriminate. Qed.
Lemma pinned_refuted_stale_free :
  exists secs n, lookup (file_table_pinned secs) n <> loc_of (spec_lookup (map rev_of_section secs) n).
Proof. exists [wit_base; Classic [(3, [CE 0 1 false])]], 3. vm_compute. discriminate. Qed.
Lemma pinned_refuted_w0_default :
  exists secs n, lookup (file_table_pinned secs) n <> loc_of (spec_lookup (map rev_of_section secs) n).
Proof. exists [XStream 0 [(3, [(T0, 700, 0)])]], 3. vm_compute. discriminate. Qed.
(** and the fixed model answers these three as the standard says *)
Example fixed_on_witnesses :
  lookup (file_table [wit_base; Classic [(3, [CE 500 0 true])]]) 3 = LOffset 500 /\
  lookup (file_table [wit_base; Classic [(3, [CE 0 1 false])]]) 3 = LNull /\
  lookup (file_table [XStream 0 [(3, [(T0, 700, 0)])]]) 3 = LOffset 700 /\
  lookup (file_table [wit_base]) 3 = LCompressed 9 0.
Proof. vm_compute. repeat split. Qed.

(** hypotheses of [lenient_newest_wins_lemma] are satisfiable on a non-trivial history *)
Example lenient_nonvacuous :
  let secs := [wit_base; Classic [(3, [CE 500 0 true]); (7, [CE 0 1 false])]] in
  spec_lookup (map rev_of_section secs) 3 <> None /\
  lookup (file_table_lenient secs [(3, 0, 40); (3, 0, 500); (8, 0, 600)]) 3 = LOffset 500 /\
  lookup (file_table_lenient secs [(3, 0, 40); (3, 0, 500); (8, 0, 600)]) 8 = LOffset 600.
Proof. vm_compute. repeat split. discriminate. Qed.
