(** C04 — proofs about the section walk of ChainModel.v, composed with the merge theorem of Proofs.v *)
From OxVerif Require Import Base.Util C04.Model C04.Proofs C04.ChainModel.

(** * small facts *)
Lemma existsb_eqb_false (x : N) (l : list N) : existsb (N.eqb x) l = false <-> ~ In x l.
Proof.
  split.
  - intros E I. assert (existsb (N.eqb x) l = true) as T
      by (apply existsb_exists; exists x; split; [exact I|apply N.eqb_refl]).
    congruence.
  - intro NI. destruct (existsb (N.eqb x) l) eqn:E; [|reflexivity].
    apply existsb_exists in E. destruct E as [y [I Q]]. apply N.eqb_eq in Q. subst y. contradiction.
Qed.

Lemma mfind_in_keys {V} (m : amap V) k v : mfind k m = Some v -> In k (map fst m).
Proof.
  induction m as [|[k' v'] r IH]; cbn; [discriminate|].
  destruct (k' =? k) eqn:E; [apply N.eqb_eq in E; left; exact E|]. intro H. right. apply IH. exact H.
Qed.

(** pigeonhole: a duplicate-free list of keys of [m] is no longer than [m] *)
Lemma nodup_keys_bound {V} (m : amap V) (l : list N) :
  NoDup l -> incl l (map fst m) -> (length l <= length m)%nat.
Proof. intros ND I. pose proof (NoDup_incl_length ND I) as L. rewrite map_length in L. exact L. Qed.

(** * /XRefStm of one section *)
Lemma stm_parse_secs m r hs : stm_parse m r = WOk hs -> hs = xrefstm_secs m r.
Proof.
  unfold stm_parse, xrefstm_target, xrefstm_secs. destruct (s_sec r).
  - destruct (s_xrefstm r) as [x|]; [|intro H; injection H as <-; reflexivity].
    destruct (mfind x m); [intro H; injection H as <-; reflexivity|discriminate].
  - intro H. injection H as <-. destruct (s_xrefstm r); reflexivity.
Qed.
Lemma stm_parse_ok m r : xrefstm_ok m r -> stm_parse m r = WOk (xrefstm_secs m r).
Proof.
  unfold xrefstm_ok, stm_parse, xrefstm_target, xrefstm_secs. destruct (s_sec r).
  - destruct (s_xrefstm r) as [x|]; [|reflexivity].
    destruct (mfind x m); [reflexivity|]. intro H. exfalso. apply H. reflexivity.
  - destruct (s_xrefstm r); reflexivity.
Qed.
Lemma stm_parse_nofuel m r : stm_parse m r <> WFuel.
Proof. unfold stm_parse. destruct (xrefstm_target r) as [x|]; [destruct (mfind x m)|]; discriminate. Qed.
Lemma stm_parse_len m r hs : stm_parse m r = WOk hs -> (length hs <= 1)%nat.
Proof.
  unfold stm_parse. destruct (xrefstm_target r) as [x|]; [destruct (mfind x m)|]; intro H;
    try discriminate; injection H as <-; cbn; lia.
Qed.

(** * the loop as coded (carrying merged_table) = merge of the collected list *)
Lemma walk_merge_walk m : forall fuel visited cur merged,
  walk_merge m fuel visited cur merged =
  match walk m fuel visited cur with
  | WOk l => WOk (fold_left merge_one (map parse_section l) merged)
  | WErr => WErr
  | WFuel => WFuel
  end.
Proof.
  induction fuel as [|k IH]; intros visited cur merged; destruct cur as [off|]; cbn [walk walk_merge]; try reflexivity.
  destruct (existsb (N.eqb off) visited); [reflexivity|].
  destruct (mfind off m) as [r|]; [|reflexivity].
  destruct (stm_parse m r) as [hs| |]; try reflexivity.
  rewrite IH. destruct (walk m k (off :: visited) (s_prev r)) as [l| |]; try reflexivity.
  cbn [map fold_left]. rewrite map_app, fold_left_app. reflexivity.
Qed.

Lemma read_xref_collect f :
  read_xref f = match collect_sections f with
                | WOk l => WOk (file_table (rev l))
                | WErr => WErr
                | WFuel => WFuel
                end.
Proof.
  unfold read_xref, collect_sections. rewrite walk_merge_walk.
  destruct (walk _ _ _ _) as [l| |]; try reflexivity.
  unfold file_table, merge. rewrite rev_involutive. reflexivity.
Qed.

(** * termination: the visited set bounds the loop by the number of offsets at which anything parses;
    each turn of the loop parses at most two sections (the section and its /XRefStm stream) *)
Lemma walk_terminates m : forall fuel visited cur,
  NoDup visited -> incl visited (map fst m) -> (length m < fuel + length visited)%nat ->
  walk m fuel visited cur <> WFuel /\
  forall l, walk m fuel visited cur = WOk l -> (length l + 2 * length visited <= 2 * length m)%nat.
Proof.
  induction fuel as [|k IH]; intros visited cur ND IN F.
  - pose proof (nodup_keys_bound m visited ND IN). lia.
  - pose proof (nodup_keys_bound m visited ND IN) as B.
    destruct cur as [off|]; cbn [walk].
    + destruct (existsb (N.eqb off) visited) eqn:E.
      * split; [discriminate|]. intros l H. injection H as <-. cbn [length]. lia.
      * destruct (mfind off m) as [r|] eqn:M.
        -- assert (ND' : NoDup (off :: visited)) by (constructor; [apply existsb_eqb_false; exact E|exact ND]).
           assert (IN' : incl (off :: visited) (map fst m)).
           { intros x [<-|I]; [eapply mfind_in_keys; exact M|apply IN; exact I]. }
           assert (F' : (length m < k + length (off :: visited))%nat) by (cbn [length]; lia).
           destruct (IH (off :: visited) (s_prev r) ND' IN' F') as [NF LE].
           pose proof (stm_parse_nofuel m r) as SN. pose proof (stm_parse_len m r) as SL.
           destruct (stm_parse m r) as [hs| |]; [|split; discriminate|contradiction].
           specialize (SL hs eq_refl).
           destruct (walk m k (off :: visited) (s_prev r)) as [l'| |]; try (split; [discriminate|discriminate]).
           ++ split; [discriminate|]. intros l H. injection H as <-.
              specialize (LE l' eq_refl). cbn [length] in *. rewrite app_length. lia.
           ++ contradiction.
        -- split; discriminate.
    + split; [discriminate|]. intros l H. injection H as <-. cbn [length]. lia.
Qed.

Theorem chain_terminates_lemma : forall f,
  collect_sections f <> WFuel /\ read_xref f <> WFuel /\
  forall l, collect_sections f = WOk l -> (length l <= 2 * length (f_at f))%nat.
Proof.
  intro f.
  destruct (walk_terminates (f_at f) (fuel_of f) [] (Some (f_start f))) as [NF LE].
  - constructor.
  - intros x [].
  - unfold fuel_of. cbn. lia.
  - split; [exact NF|]. split.
    + rewrite read_xref_collect. unfold collect_sections.
      destruct (walk _ _ _ _); [discriminate|discriminate|contradiction].
    + intros l H. specialize (LE l H). cbn [length] in LE. lia.
Qed.

(** more fuel changes nothing once the loop ends: the fuel is an artefact *)
Lemma walk_fuel_mono m : forall fuel visited cur j,
  walk m fuel visited cur <> WFuel -> walk m (fuel + j) visited cur = walk m fuel visited cur.
Proof.
  induction fuel as [|k IH]; intros visited cur j H; destruct cur as [off|]; cbn [walk plus] in *; try reflexivity.
  - contradiction.
  - destruct j; reflexivity.
  - destruct (existsb (N.eqb off) visited); [reflexivity|].
    destruct (mfind off m) as [r|]; [|reflexivity].
    destruct (stm_parse m r) as [hs| |]; try reflexivity.
    rewrite IH; [reflexivity|].
    intro E. rewrite E in H. contradiction.
Qed.

Theorem fuel_irrelevant_lemma : forall f j,
  walk (f_at f) (fuel_of f + j) [] (Some (f_start f)) = collect_sections f.
Proof. intros f j. apply walk_fuel_mono. apply chain_terminates_lemma. Qed.

(** a cycle is cut after each of its sections was taken once *)
Definition sA : section := Classic [(0, [CE 0 65535 false; CE 17 0 true])].
Definition sB : section := Classic [(1, [CE 300 0 true])].
Example cycle_cut :
  collect_sections {| f_at := [(10, {| s_sec := sA; s_prev := Some 20; s_xrefstm := None |});
                               (20, {| s_sec := sB; s_prev := Some 10; s_xrefstm := None |})];
                      f_start := 20 |} = WOk [sB; sA].
Proof. vm_compute. reflexivity. Qed.
(** /XRefStm pointing at the section itself, or at a section of the /Prev chain: parsed once more,
    merged without effect, the chain is not cut *)
Example xrefstm_self_and_chain :
  collect_sections {| f_at := [(10, {| s_sec := sA; s_prev := None; s_xrefstm := Some 10 |});
                               (20, {| s_sec := sB; s_prev := Some 10; s_xrefstm := Some 10 |})];
                      f_start := 20 |} = WOk [sB; sA; sA; sA].
Proof. vm_compute. reflexivity. Qed.

(** without the visited set a self-referencing /Prev never ends *)
Lemma novisit_refuted_lemma : exists m start, forall fuel, walk_novisit m fuel (Some start) = WFuel.
Proof.
  exists [(5, {| s_sec := sA; s_prev := Some 5; s_xrefstm := None |})], 5.
  induction fuel as [|k IH]; [reflexivity|].
  cbn [walk_novisit]. change (mfind 5 [(5, {| s_sec := sA; s_prev := Some 5; s_xrefstm := None |})])
    with (Some {| s_sec := sA; s_prev := Some 5; s_xrefstm := None |}).
  cbn [s_prev]. rewrite IH. reflexivity.
Qed.

(** * a well-formed chain is walked newest first *)
Lemma chain_keys m : forall ch cur, chain_from m cur ch -> incl (map fst ch) (map fst m).
Proof.
  induction ch as [|[o r] older IH]; intros cur H x I; [destruct I|].
  cbn in H. destruct H as [_ [M C]]. destruct I as [<-|I].
  - eapply mfind_in_keys. exact M.
  - eapply IH; eassumption.
Qed.

Lemma chain_length m ch cur : chain_from m cur ch -> NoDup (map fst ch) -> (length ch <= length m)%nat.
Proof.
  intros C ND. rewrite <- (map_length fst ch). apply nodup_keys_bound; [exact ND|].
  eapply chain_keys. exact C.
Qed.

Definition lookup_order (m : amap srec) (ch : list (N * srec)) : list section :=
  concat (map (fun p => s_sec (snd p) :: xrefstm_secs m (snd p)) ch).

Lemma walk_chain m : forall ch fuel visited cur,
  chain_from m cur ch -> NoDup (map fst ch) ->
  (forall p, In p ch -> xrefstm_ok m (snd p)) ->
  (forall o, In o (map fst ch) -> ~ In o visited) ->
  (length ch < fuel)%nat ->
  walk m fuel visited cur = WOk (lookup_order m ch).
Proof.
  induction ch as [|[o r] older IH]; intros fuel visited cur C ND OK FR F.
  - cbn in C. subst cur. destruct fuel; reflexivity.
  - cbn in C. destruct C as [-> [M C]].
    destruct fuel as [|k]; [cbn in F; lia|]. cbn [walk].
    assert (E : existsb (N.eqb o) visited = false) by (apply existsb_eqb_false; apply FR; left; reflexivity).
    rewrite E, M. rewrite (stm_parse_ok m r (OK (o, r) (or_introl eq_refl))).
    cbn [map fst] in ND. inversion ND as [|x xs NI ND' Q]. subst x xs.
    rewrite (IH k (o :: visited) (s_prev r) C ND').
    + reflexivity.
    + intros p I. apply OK. right. exact I.
    + intros o' I [<-|I']; [contradiction|]. apply (FR o'); [right; exact I|exact I'].
    + cbn [length] in F. lia.
Qed.

Theorem chain_newest_first_lemma : forall f ch,
  is_chain f ch ->
  collect_sections f = WOk (concat (map (fun p => s_sec (snd p) :: xrefstm_secs (f_at f) (snd p)) ch)).
Proof.
  intros f ch [[C ND] OK]. unfold collect_sections. apply walk_chain; try assumption.
  - intros o _ [].
  - unfold fuel_of. pose proof (chain_length _ _ _ C ND). lia.
Qed.

(** * every file: the shape of what the loop returns
    Either the loop returns Err (some /Prev or /XRefStm on the way names an offset where nothing
    parses), or, following /Prev from startxref, there is a duplicate-free path [ch] that ends at a
    section without /Prev or at a /Prev pointing back into the path (cycle), and the loop returns
    exactly the lookup order of [ch]: each section once, each followed by its /XRefStm stream. *)
Lemma walk_shape m : forall fuel visited cur,
  walk m fuel visited cur <> WFuel ->
  walk m fuel visited cur = WErr \/
  exists ch stop,
    path_from m cur ch stop /\ NoDup (map fst ch) /\ (forall o, In o (map fst ch) -> ~ In o visited) /\
    match stop with None => True | Some b => In b visited \/ In b (map fst ch) end /\
    walk m fuel visited cur = WOk (lookup_order m ch).
Proof.
  induction fuel as [|k IH]; intros visited cur NF.
  - destruct cur as [off|]; [cbn in NF; contradiction|].
    right. exists [], None. cbn. repeat split; [constructor|intros o []].
  - destruct cur as [off|].
    2:{ right. exists [], None. cbn. repeat split; [constructor|intros o []]. }
    cbn [walk] in *. destruct (existsb (N.eqb off) visited) eqn:E.
    + right. exists [], (Some off). cbn. repeat split; [constructor|intros o []|].
      left. apply existsb_exists in E. destruct E as [y [I Q]]. apply N.eqb_eq in Q. subst y. exact I.
    + destruct (mfind off m) as [r|] eqn:M; [|left; reflexivity].
      destruct (stm_parse m r) as [hs| |] eqn:SP; [|left; reflexivity|contradiction].
      apply stm_parse_secs in SP. subst hs.
      assert (NF' : walk m k (off :: visited) (s_prev r) <> WFuel)
        by (intro Q; rewrite Q in NF; contradiction).
      destruct (IH (off :: visited) (s_prev r) NF') as [R|[ch [stop [P [ND [FR [B R]]]]]]]; rewrite R.
      { left. reflexivity. }
      right. exists ((off, r) :: ch), stop. cbn [path_from map fst snd].
      split; [split; [reflexivity|split; [exact M|exact P]]|].
      split.
      { constructor; [|exact ND]. intro I. apply (FR off I). left. reflexivity. }
      split.
      { intros o [<-|I]; [apply existsb_eqb_false; exact E|]. intro V. apply (FR o I). right. exact V. }
      split; [|reflexivity].
      destruct stop as [b|]; [|exact I].
      destruct B as [[<-|B]|B]; [right; left; reflexivity|left; exact B|right; right; exact B].
Qed.

Theorem walk_shape_lemma : forall f,
  collect_sections f = WErr \/
  exists ch stop,
    path_from (f_at f) (Some (f_start f)) ch stop /\ NoDup (map fst ch) /\
    match stop with None => True | Some b => In b (map fst ch) end /\
    collect_sections f = WOk (concat (map (fun p => s_sec (snd p) :: xrefstm_secs (f_at f) (snd p)) ch)).
Proof.
  intro f. destruct (chain_terminates_lemma f) as [NF _].
  destruct (walk_shape _ _ _ _ NF) as [R|[ch [stop [P [ND [_ [B R]]]]]]]; [left; exact R|].
  right. exists ch, stop. split; [exact P|]. split; [exact ND|]. split; [|exact R].
  destruct stop as [b|]; [|exact I]. destruct B as [[]|B]; exact B.
Qed.

(** whatever was collected, the newest collected section that mentions n wins (any file) *)
Theorem any_file_newest_collected_wins_lemma : forall f l,
  collect_sections f = WOk l ->
  read_xref f = WOk (file_table (rev l)) /\
  forall n, lookup (file_table (rev l)) n = loc_of (spec_lookup (map rev_of_section (rev l)) n).
Proof.
  intros f l H. split; [rewrite read_xref_collect, H; reflexivity|].
  intro n. apply merge_newest_wins_lemma.
Qed.

(** a broken /Prev or /XRefStm: the whole walk is an error (strict: open fails; other presets: recovery scan) *)
Example broken_prev_errs :
  read_xref {| f_at := [(10, {| s_sec := sA; s_prev := Some 777; s_xrefstm := None |})]; f_start := 10 |} = WErr /\
  read_xref {| f_at := [(10, {| s_sec := sA; s_prev := None; s_xrefstm := Some 777 |})]; f_start := 10 |} = WErr.
Proof. split; reflexivity. Qed.

(** * the ISO walk on a well-formed chain *)
Lemma iso_walk_chain m : forall ch fuel cur,
  chain_from m cur ch -> (length ch <= fuel)%nat ->
  iso_walk m fuel cur = concat (map (fun p => s_sec (snd p) :: xrefstm_secs m (snd p)) ch).
Proof.
  induction ch as [|[o r] older IH]; intros fuel cur C F.
  - cbn in C. subst cur. destruct fuel; reflexivity.
  - cbn in C. destruct C as [-> [M C]].
    destruct fuel as [|k]; [cbn in F; lia|]. cbn [iso_walk]. rewrite M.
    cbn [map concat snd]. rewrite (IH k (s_prev r) C) by (cbn [length] in F; lia).
    reflexivity.
Qed.

Theorem iso_sections_chain_lemma : forall f ch,
  is_prev_chain f ch ->
  iso_sections f = concat (map (fun p => s_sec (snd p) :: xrefstm_secs (f_at f) (snd p)) ch).
Proof.
  intros f ch [C ND]. unfold iso_sections. apply iso_walk_chain; [exact C|].
  eapply chain_length; eassumption.
Qed.

Lemma chain_found m : forall ch cur, chain_from m cur ch -> forall p, In p ch -> mfind (fst p) m = Some (snd p).
Proof.
  induction ch as [|[o r] older IH]; intros cur C p I; [destruct I|].
  cbn in C. destruct C as [_ [M C]]. destruct I as [<-|I]; [exact M|]. eapply IH; eassumption.
Qed.

(** * composition with the merge theorem: every well-formed chain, hybrid or not *)
Theorem file_newest_wins_lemma : forall f,
  wf_chain f ->
  exists t, read_xref f = WOk t /\ forall n, lookup t n = loc_of (spec_lookup (revisions_of f) n).
Proof.
  intros f [ch IC]. exists (file_table (rev (iso_sections f))). split.
  - rewrite read_xref_collect, (chain_newest_first_lemma f ch IC).
    destruct IC as [IP _]. rewrite <- (iso_sections_chain_lemma f ch IP). reflexivity.
  - intro n. rewrite merge_newest_wins_lemma. reflexivity.
Qed.

(** * the pinned loop = the fixed loop on the file with every /XRefStm key deleted *)
Lemma mfind_strip m o :
  mfind o (map (fun p : N * srec => (fst p, strip_rec (snd p))) m) = option_map strip_rec (mfind o m).
Proof.
  induction m as [|[k r] rest IH]; [reflexivity|]. cbn [map mfind fst snd].
  destruct (k =? o); [reflexivity|exact IH].
Qed.


Lemma walk_pinned_strip m : forall fuel visited cur,
  walk (map (fun p : N * srec => (fst p, strip_rec (snd p))) m) fuel visited cur = walk_pinned m fuel visited cur.
Proof.
  induction fuel as [|k IH]; intros visited cur; destruct cur as [off|]; cbn [walk walk_pinned]; try reflexivity.
  destruct (existsb (N.eqb off) visited); [reflexivity|].
  rewrite mfind_strip. destruct (mfind off m) as [r|]; [|reflexivity].
  cbn [option_map].
  assert (SP : stm_parse (map (fun p : N * srec => (fst p, strip_rec (snd p))) m) (strip_rec r) = WOk []).
  { unfold stm_parse, xrefstm_target. cbn [strip_rec s_sec s_xrefstm]. destruct (s_sec r); reflexivity. }
  rewrite SP. cbn [strip_rec s_prev s_sec app]. rewrite IH. reflexivity.
Qed.

Lemma walk_merge_pinned_walk m : forall fuel visited cur merged,
  walk_merge_pinned m fuel visited cur merged =
  match walk_pinned m fuel visited cur with
  | WOk l => WOk (fold_left merge_one (map parse_section l) merged)
  | WErr => WErr
  | WFuel => WFuel
  end.
Proof.
  induction fuel as [|k IH]; intros visited cur merged; destruct cur as [off|]; cbn [walk_pinned walk_merge_pinned]; try reflexivity.
  destruct (existsb (N.eqb off) visited); [reflexivity|].
  destruct (mfind off m) as [r|]; [|reflexivity].
  rewrite IH. destruct (walk_pinned m k (off :: visited) (s_prev r)); reflexivity.
Qed.

Lemma read_xref_pinned_strip f : read_xref_pinned f = read_xref (strip f).
Proof.
  unfold read_xref_pinned, read_xref, strip, fuel_of. cbn [f_at f_start].
  rewrite walk_merge_pinned_walk, walk_merge_walk, map_length, walk_pinned_strip. reflexivity.
Qed.

Lemma chain_strip m : forall ch cur,
  chain_from m cur ch ->
  chain_from (map (fun p : N * srec => (fst p, strip_rec (snd p))) m) cur
             (map (fun p : N * srec => (fst p, strip_rec (snd p))) ch).
Proof.
  induction ch as [|[o r] older IH]; intros cur C; [exact C|].
  cbn in C. destruct C as [-> [M C]]. cbn [map chain_from fst snd]. split; [reflexivity|]. split.
  - rewrite mfind_strip, M. reflexivity.
  - apply IH. exact C.
Qed.


Lemma wf_chain_strip f : wf_prev_chain f -> wf_chain (strip f).
Proof.
  intros [ch [C ND]]. exists (map (fun p : N * srec => (fst p, strip_rec (snd p))) ch). split; [split|].
  - apply chain_strip. exact C.
  - rewrite map_map. cbn [fst]. exact ND.
  - intros p I. apply in_map_iff in I. destruct I as [q [<- _]].
    unfold xrefstm_ok, xrefstm_target. cbn [snd strip_rec s_sec s_xrefstm]. destruct (s_sec (snd q)); exact I.
Qed.

(** the pinned reader on every /Prev chain, hybrid or not: it answers as if no trailer had /XRefStm *)
Theorem pinned_ignores_xrefstm_lemma : forall f,
  wf_prev_chain f ->
  exists t, read_xref_pinned f = WOk t /\ forall n, lookup t n = loc_of (spec_lookup (revisions_of (strip f)) n).
Proof.
  intros f W. rewrite read_xref_pinned_strip.
  apply file_newest_wins_lemma. apply wf_chain_strip. exact W.
Qed.

(** * the hybrid-reference witness (ISO 32000-1 7.5.8.4)
    base revision (offset 100): objects 1..4 in use, 5 and 6 free (the "hidden" objects);
    update (offset 400): classic section re-defining 2, trailer /Prev 100 /XRefStm 300;
    stream at 300: 5 = member 0 of object stream 6, 6 at offset 250. *)
Definition hyb_base : section :=
  Classic [(0, [CE 0 65535 false; CE 17 0 true; CE 60 0 true; CE 110 0 true; CE 160 0 true;
                CE 0 0 false; CE 0 0 false])].
Definition hyb_stm : section := XStream 1 [(5, [(T2, 6, 0); (T1, 250, 0)])].
Definition hyb_upd : section := Classic [(2, [CE 350 0 true])].
Definition hyb_file : xfile :=
  {| f_at := [(100, {| s_sec := hyb_base; s_prev := None; s_xrefstm := None |});
              (300, {| s_sec := hyb_stm; s_prev := None; s_xrefstm := None |});
              (400, {| s_sec := hyb_upd; s_prev := Some 100; s_xrefstm := Some 300 |})];
     f_start := 400 |}.

Lemma hyb_file_wf : wf_chain hyb_file.
Proof.
  exists [(400, {| s_sec := hyb_upd; s_prev := Some 100; s_xrefstm := Some 300 |});
          (100, {| s_sec := hyb_base; s_prev := None; s_xrefstm := None |})].
  split; [split|].
  - cbn. repeat split.
  - cbn. repeat constructor; cbn; intuition discriminate.
  - intros p [<-|[<-|[]]]; cbn; [discriminate|exact I].
Qed.

(** the pinned loop does not have the property *)
Lemma hybrid_refuted_lemma :
  exists f t n, wf_chain f /\ read_xref_pinned f = WOk t /\ lookup t n <> loc_of (spec_lookup (revisions_of f) n).
Proof.
  exists hyb_file, (file_table [hyb_base; hyb_upd]), 5. split; [exact hyb_file_wf|].
  split; [vm_compute; reflexivity|]. vm_compute. discriminate.
Qed.

(** what each side answers on the witness: the pinned code reads the hidden objects 5 and 6 as free
    (null), the fixed code and the standard find them through the /XRefStm stream *)
Example hybrid_witness_values :
  read_xref_pinned hyb_file = WOk (file_table [hyb_base; hyb_upd]) /\
  map (lookup (file_table [hyb_base; hyb_upd])) [1; 2; 5; 6] = [LOffset 17; LOffset 350; LNull; LNull] /\
  collect_sections hyb_file = WOk [hyb_upd; hyb_stm; hyb_base] /\
  read_xref hyb_file = WOk (file_table [hyb_base; hyb_stm; hyb_upd]) /\
  map (lookup (file_table [hyb_base; hyb_stm; hyb_upd])) [1; 2; 5; 6]
    = [LOffset 17; LOffset 350; LCompressed 6 0; LOffset 250] /\
  map (fun n => loc_of (spec_lookup (revisions_of hyb_file) n)) [1; 2; 5; 6]
    = [LOffset 17; LOffset 350; LCompressed 6 0; LOffset 250].
Proof. vm_compute. repeat split. Qed.

(** * startxref: the last complete `startxref` / number pair of the tail wins *)
(** [settled pre]: scanning [pre] from its first line, no `startxref` line of [pre] takes the line
    after the end of [pre] as its offset line *)
Inductive settled : list tline -> Prop :=
| St_nil : settled []
| St_pair nxt r : settled r -> settled (LStartxref :: nxt :: r)
| St_num k r : settled r -> settled (LNum k :: r)
| St_other r : settled r -> settled (LOther :: r).

Lemma find_start_no_start : forall post last,
  ~ In LStartxref post -> find_start post last = last.
Proof.
  induction post as [|x r IH]; intros last NI; [reflexivity|].
  destruct x; cbn [find_start].
  - exfalso. apply NI. left. reflexivity.
  - apply IH. intro I. apply NI. right. exact I.
  - apply IH. intro I. apply NI. right. exact I.
Qed.

Lemma find_start_app : forall pre, settled pre -> forall rest last,
  find_start (pre ++ rest) last = find_start rest (find_start pre last).
Proof.
  induction 1 as [|nxt r S IH|k r S IH|r S IH]; intros rest last; cbn [app find_start].
  - reflexivity.
  - apply IH.
  - apply IH.
  - apply IH.
Qed.

Theorem startxref_last_wins_lemma : forall pre k post,
  settled pre -> ~ In LStartxref post ->
  find_start (pre ++ LStartxref :: LNum k :: post) None = Some k.
Proof.
  intros pre k post S NI. rewrite (find_start_app pre S). cbn [find_start].
  apply find_start_no_start. exact NI.
Qed.

(** three revisions appended one after the other; the tail window starts inside the first *)
Example startxref_nonvacuous :
  let pre := [LNum 116; LOther; LOther; LOther; LStartxref; LNum 812; LOther; LOther] in
  settled pre /\
  find_start (pre ++ LStartxref :: LNum 1490 :: [LOther]) None = Some 1490.
Proof. split; [repeat constructor|reflexivity]. Qed.

(** a `startxref` line directly followed by another one swallows it (lines.next()): the pair after
    it is then not seen — why [settled] is needed *)
Example startxref_dangling :
  find_start ([LStartxref] ++ LStartxref :: LNum 1490 :: [LOther]) None = None.
Proof. reflexivity. Qed.

(** * whole pipeline: tail + offset map *)
Theorem open_newest_wins_lemma : forall pre k post m,
  settled pre -> ~ In LStartxref post ->
  let f := {| f_at := m; f_start := k |} in
  wf_chain f ->
  exists t, open_xref (pre ++ LStartxref :: LNum k :: post) m = WOk t /\
            forall n, lookup t n = loc_of (spec_lookup (revisions_of f) n).
Proof.
  intros pre k post m S NI f W. unfold open_xref.
  rewrite (startxref_last_wins_lemma pre k post S NI).
  apply file_newest_wins_lemma; assumption.
Qed.

(** * non-vacuity: a three-revision non-hybrid chain (classic, xref stream, classic) with a stray
    section in the map that the chain does not reach *)
Definition ex_r1 : section := Classic [(0, [CE 0 65535 false; CE 17 0 true; CE 60 0 true; CE 110 0 true])].
Definition ex_r2 : section := XStream 1 [(2, [(T2, 4, 0)]); (4, [(T1, 500, 0)])].
Definition ex_r3 : section := Classic [(2, [CE 700 0 true]); (3, [CE 0 1 false])].
Definition ex_file : xfile :=
  {| f_at := [(900, {| s_sec := ex_r3; s_prev := Some 600; s_xrefstm := None |});
              (200, {| s_sec := ex_r1; s_prev := None; s_xrefstm := None |});
              (50,  {| s_sec := sB;    s_prev := Some 900; s_xrefstm := None |});
              (600, {| s_sec := ex_r2; s_prev := Some 200; s_xrefstm := None |})];
     f_start := 900 |}.

Example ex_file_hyps : wf_chain ex_file.
Proof.
  exists [(900, {| s_sec := ex_r3; s_prev := Some 600; s_xrefstm := None |});
          (600, {| s_sec := ex_r2; s_prev := Some 200; s_xrefstm := None |});
          (200, {| s_sec := ex_r1; s_prev := None; s_xrefstm := None |})].
  split; [split|].
  - cbn. repeat split.
  - cbn. repeat constructor; cbn; intuition discriminate.
  - intros p [<-|[<-|[<-|[]]]]; exact I.
Qed.

Example ex_file_values :
  collect_sections ex_file = WOk [ex_r3; ex_r2; ex_r1] /\
  (exists t, read_xref ex_file = WOk t /\
     map (lookup t) [1; 2; 3; 4; 9] = [LOffset 17; LOffset 700; LNull; LOffset 500; LMissing]) /\
  map (fun n => loc_of (spec_lookup (revisions_of ex_file) n)) [1; 2; 3; 4; 9]
    = [LOffset 17; LOffset 700; LNull; LOffset 500; LMissing].
Proof.
  split; [vm_compute; reflexivity|]. split.
  - eexists. split; [vm_compute; reflexivity|]. vm_compute. reflexivity.
  - vm_compute. reflexivity.
Qed.
