(** C04 — proofs about the section walk of ChainModel.v, composed with the merge theorem of Proofs.v *)
From OxVerif Require Import Base.Util C04.Model C04.Proofs C04.ChainModel.

(** * small facts *)
Lemma existsb_eqb_false (x : N) (l : list N) : existsb (N.eqb x) l = false <-> ~ In x l.
Proof.
  split.
  - intros E I. assert (existsb (N.eqb x) l = true) as T
      by (apply existsb_exists; exists x; split; [exact I|apply N.eqb_refl]).
    congruence.
  - intro NI. destruct (existsb (N.eqb x) l) eqn:E; [|reflexivity].
    apply existsb_exists in E. destruct E as [y [I Q]]. apply N.eqb_eq in Q. subst y. contradiction.
Qed.

Lemma mfind_in_keys {V} (m : amap V) k v : mfind k m = Some v -> In k (map fst m).
Proof.
  induction m as [|[k' v'] r IH]; cbn; [discriminate|].
  destruct (k' =? k) eqn:E; [apply N.eqb_eq in E; left; exact E|]. intro H. right. apply IH. exact H.
Qed.

(** pigeonhole: a duplicate-free list of keys of [m] is no longer than [m] *)
Lemma nodup_keys_bound {V} (m : amap V) (l : list N) :
  NoDup l -> incl l (map fst m) -> (length l <= length m)%nat.
Proof. intros ND I. pose proof (NoDup_incl_length ND I) as L. rewrite map_length in L. exact L. Qed.

(** * the loop as coded (carrying merged_table) = merge of the collected list *)
Lemma walk_merge_walk m : forall fuel visited cur merged,
  walk_merge m fuel visited cur merged =
  match walk m fuel visited cur with
  | WOk l => WOk (fold_left merge_one (map parse_section l) merged)
  | WErr => WErr
  | WFuel => WFuel
  end.
Proof.
  induction fuel as [|k IH]; intros visited cur merged; destruct cur as [off|]; cbn [walk walk_merge]; try reflexivity.
  destruct (existsb (N.eqb off) visited); [reflexivity|].
  destruct (mfind off m) as [r|]; [|reflexivity].
  rewrite IH. destruct (walk m k (off :: visited) (s_prev r)); reflexivity.
Qed.

Lemma read_xref_collect f :
  read_xref f = match collect_sections f with
                | WOk l => WOk (file_table (rev l))
                | WErr => WErr
                | WFuel => WFuel
                end.
Proof.
  unfold read_xref, collect_sections. rewrite walk_merge_walk.
  destruct (walk _ _ _ _) as [l| |]; try reflexivity.
  unfold file_table, merge. rewrite rev_involutive. reflexivity.
Qed.

(** * termination: the visited set bounds the loop by the number of offsets at which anything parses *)
Lemma walk_terminates m : forall fuel visited cur,
  NoDup visited -> incl visited (map fst m) -> (length m < fuel + length visited)%nat ->
  walk m fuel visited cur <> WFuel /\
  forall l, walk m fuel visited cur = WOk l -> (length l + length visited <= length m)%nat.
Proof.
  induction fuel as [|k IH]; intros visited cur ND IN F.
  - pose proof (nodup_keys_bound m visited ND IN). lia.
  - pose proof (nodup_keys_bound m visited ND IN) as B.
    destruct cur as [off|]; cbn [walk].
    + destruct (existsb (N.eqb off) visited) eqn:E.
      * split; [discriminate|]. intros l H. injection H as <-. cbn. exact B.
      * destruct (mfind off m) as [r|] eqn:M.
        -- assert (ND' : NoDup (off :: visited)) by (constructor; [apply existsb_eqb_false; exact E|exact ND]).
           assert (IN' : incl (off :: visited) (map fst m)).
           { intros x [<-|I]; [eapply mfind_in_keys; exact M|apply IN; exact I]. }
           assert (F' : (length m < k + length (off :: visited))%nat) by (cbn [length]; lia).
           destruct (IH (off :: visited) (s_prev r) ND' IN' F') as [NF LE].
           destruct (walk m k (off :: visited) (s_prev r)) as [l'| |]; try (split; [discriminate|discriminate]).
           ++ split; [discriminate|]. intros l H. injection H as <-.
              specialize (LE l' eq_refl). cbn [length] in *. lia.
           ++ contradiction.
        -- split; discriminate.
    + split; [discriminate|]. intros l H. injection H as <-. cbn. exact B.
Qed.

Theorem chain_terminates_lemma : forall f,
  collect_sections f <> WFuel /\ read_xref f <> WFuel /\
  forall l, collect_sections f = WOk l -> (length l <= length (f_at f))%nat.
Proof.
  intro f.
  destruct (walk_terminates (f_at f) (fuel_of f) [] (Some (f_start f))) as [NF LE].
  - constructor.
  - intros x [].
  - unfold fuel_of. cbn. lia.
  - split; [exact NF|]. split.
    + rewrite read_xref_collect. unfold collect_sections.
      destruct (walk _ _ _ _); [discriminate|discriminate|contradiction].
    + intros l H. specialize (LE l H). cbn in LE. lia.
Qed.

(** more fuel changes nothing once the loop ends: the fuel is an artefact *)
Lemma walk_fuel_mono m : forall fuel visited cur j,
  walk m fuel visited cur <> WFuel -> walk m (fuel + j) visited cur = walk m fuel visited cur.
Proof.
  induction fuel as [|k IH]; intros visited cur j H; destruct cur as [off|]; cbn [walk plus] in *; try reflexivity.
  - contradiction.
  - destruct j; reflexivity.
  - destruct (existsb (N.eqb off) visited); [reflexivity|].
    destruct (mfind off m) as [r|]; [|reflexivity].
    rewrite IH; [reflexivity|].
    intro E. rewrite E in H. contradiction.
Qed.

Theorem fuel_irrelevant_lemma : forall f j,
  walk (f_at f) (fuel_of f + j) [] (Some (f_start f)) = collect_sections f.
Proof. intros f j. apply walk_fuel_mono. apply chain_terminates_lemma. Qed.

(** a cycle is cut after each of its sections was taken once *)
Definition sA : section := Classic [(0, [CE 0 65535 false; CE 17 0 true])].
Definition sB : section := Classic [(1, [CE 300 0 true])].
Example cycle_cut :
  collect_sections {| f_at := [(10, {| s_sec := sA; s_prev := Some 20; s_xrefstm := None |});
                               (20, {| s_sec := sB; s_prev := Some 10; s_xrefstm := None |})];
                      f_start := 20 |} = WOk [sB; sA].
Proof. vm_compute. reflexivity. Qed.

(** without the visited set a self-referencing /Prev never ends *)
Lemma novisit_refuted_lemma : exists m start, forall fuel, walk_novisit m fuel (Some start) = WFuel.
Proof.
  exists [(5, {| s_sec := sA; s_prev := Some 5; s_xrefstm := None |})], 5.
  induction fuel as [|k IH]; [reflexivity|].
  cbn [walk_novisit]. change (mfind 5 [(5, {| s_sec := sA; s_prev := Some 5; s_xrefstm := None |})])
    with (Some {| s_sec := sA; s_prev := Some 5; s_xrefstm := None |}).
  cbn [s_prev]. rewrite IH. reflexivity.
Qed.

(** * a well-formed chain is walked newest first *)
Lemma chain_keys m : forall ch cur, chain_from m cur ch -> incl (map fst ch) (map fst m).
Proof.
  induction ch as [|[o r] older IH]; intros cur H x I; [destruct I|].
  cbn in H. destruct H as [_ [M C]]. destruct I as [<-|I].
  - eapply mfind_in_keys. exact M.
  - eapply IH; eassumption.
Qed.

Lemma chain_length m ch cur : chain_from m cur ch -> NoDup (map fst ch) -> (length ch <= length m)%nat.
Proof.
  intros C ND. rewrite <- (map_length fst ch). apply nodup_keys_bound; [exact ND|].
  eapply chain_keys. exact C.
Qed.

Lemma walk_chain m : forall ch fuel visited cur,
  chain_from m cur ch -> NoDup (map fst ch) ->
  (forall o, In o (map fst ch) -> ~ In o visited) ->
  (length ch < fuel)%nat ->
  walk m fuel visited cur = WOk (map (fun p => s_sec (snd p)) ch).
Proof.
  induction ch as [|[o r] older IH]; intros fuel visited cur C ND FR F.
  - cbn in C. subst cur. destruct fuel; reflexivity.
  - cbn in C. destruct C as [-> [M C]].
    destruct fuel as [|k]; [cbn in F; lia|]. cbn [walk].
    assert (E : existsb (N.eqb o) visited = false) by (apply existsb_eqb_false; apply FR; left; reflexivity).
    rewrite E, M.
    cbn [map fst] in ND. inversion ND as [|x xs NI ND' Q]. subst x xs.
    rewrite (IH k (o :: visited) (s_prev r) C ND').
    + reflexivity.
    + intros o' I [<-|I']; [contradiction|]. apply (FR o'); [right; exact I|exact I'].
    + cbn [length] in F. lia.
Qed.

Theorem chain_newest_first_lemma : forall f ch,
  is_chain f ch -> collect_sections f = WOk (map (fun p => s_sec (snd p)) ch).
Proof.
  intros f ch [C ND]. unfold collect_sections. apply walk_chain; try assumption.
  - intros o _ [].
  - unfold fuel_of. pose proof (chain_length _ _ _ C ND). lia.
Qed.

(** * every file: the shape of what the loop returns
    Following /Prev from startxref there is a duplicate-free path [ch] that ends
    (a) at a section without /Prev, or (b) at a /Prev pointing back into the path (cycle) — in both
    cases the loop returns exactly the sections of [ch], newest first, each once — or
    (c) at an offset where nothing parses — then the loop returns Err. *)
Lemma chain_is_path m : forall ch cur, chain_from m cur ch <-> path_from m cur ch None.
Proof.
  induction ch as [|[o r] older IH]; intros cur; cbn; [tauto|].
  rewrite IH. tauto.
Qed.

Lemma walk_shape m : forall fuel visited cur,
  walk m fuel visited cur <> WFuel ->
  exists ch stop,
    path_from m cur ch stop /\ NoDup (map fst ch) /\ (forall o, In o (map fst ch) -> ~ In o visited) /\
    match stop with
    | None => walk m fuel visited cur = WOk (map (fun p => s_sec (snd p)) ch)
    | Some b =>
        ((In b visited \/ In b (map fst ch)) /\ walk m fuel visited cur = WOk (map (fun p => s_sec (snd p)) ch))
        \/ (mfind b m = None /\ walk m fuel visited cur = WErr)
    end.
Proof.
  induction fuel as [|k IH]; intros visited cur NF.
  - destruct cur as [off|]; [cbn in NF; contradiction|].
    exists [], None. cbn. repeat split; [constructor|intros o []].
  - destruct cur as [off|].
    2:{ exists [], None. cbn. repeat split; [constructor|intros o []]. }
    cbn [walk] in *. destruct (existsb (N.eqb off) visited) eqn:E.
    + exists [], (Some off). cbn. repeat split; [constructor|intros o []|].
      left. split; [|reflexivity]. left.
      apply existsb_exists in E. destruct E as [y [I Q]]. apply N.eqb_eq in Q. subst y. exact I.
    + destruct (mfind off m) as [r|] eqn:M.
      2:{ exists [], (Some off). cbn. repeat split; [constructor|intros o []|]. right. split; [exact M|reflexivity]. }
      assert (NF' : walk m k (off :: visited) (s_prev r) <> WFuel)
        by (intro Q; rewrite Q in NF; contradiction).
      destruct (IH (off :: visited) (s_prev r) NF') as [ch [stop [P [ND [FR R]]]]].
      exists ((off, r) :: ch), stop. cbn [path_from map fst snd].
      split; [split; [reflexivity|split; [exact M|exact P]]|].
      split.
      { constructor; [|exact ND]. intro I. apply (FR off I). left. reflexivity. }
      split.
      { intros o [<-|I]; [apply existsb_eqb_false; exact E|]. intro V. apply (FR o I). right. exact V. }
      destruct stop as [b|].
      * destruct R as [[B R]|[B R]]; rewrite R.
        -- left. split; [|reflexivity].
           destruct B as [[<-|B]|B]; [right; left; reflexivity|left; exact B|right; right; exact B].
        -- right. split; [exact B|reflexivity].
      * rewrite R. reflexivity.
Qed.

Theorem walk_shape_lemma : forall f,
  exists ch stop,
    path_from (f_at f) (Some (f_start f)) ch stop /\ NoDup (map fst ch) /\
    match stop with
    | None => collect_sections f = WOk (map (fun p => s_sec (snd p)) ch)
    | Some b =>
        (In b (map fst ch) /\ collect_sections f = WOk (map (fun p => s_sec (snd p)) ch))
        \/ (mfind b (f_at f) = None /\ collect_sections f = WErr)
    end.
Proof.
  intro f. destruct (chain_terminates_lemma f) as [NF _].
  destruct (walk_shape _ _ _ _ NF) as [ch [stop [P [ND [_ R]]]]].
  exists ch, stop. split; [exact P|]. split; [exact ND|].
  destruct stop as [b|]; [|exact R].
  destruct R as [[[[]|B] R]|R]; [left; split; assumption|right; exact R].
Qed.

(** whatever was collected, the newest collected section that mentions n wins (any file) *)
Theorem any_file_newest_collected_wins_lemma : forall f l,
  collect_sections f = WOk l ->
  read_xref f = WOk (file_table (rev l)) /\
  forall n, lookup (file_table (rev l)) n = loc_of (spec_lookup (map rev_of_section (rev l)) n).
Proof.
  intros f l H. split; [rewrite read_xref_collect, H; reflexivity|].
  intro n. apply merge_newest_wins_lemma.
Qed.

(** a broken /Prev: the whole walk is an error (strict: open fails; other presets: recovery scan) *)
Example broken_prev_errs :
  read_xref {| f_at := [(10, {| s_sec := sA; s_prev := Some 777; s_xrefstm := None |})]; f_start := 10 |} = WErr.
Proof. reflexivity. Qed.

(** * the ISO walk on a well-formed chain *)
Lemma iso_walk_chain m : forall ch fuel cur,
  chain_from m cur ch -> (length ch <= fuel)%nat ->
  iso_walk m fuel cur = concat (map (fun p => s_sec (snd p) :: xrefstm_secs m (snd p)) ch).
Proof.
  induction ch as [|[o r] older IH]; intros fuel cur C F.
  - cbn in C. subst cur. destruct fuel; reflexivity.
  - cbn in C. destruct C as [-> [M C]].
    destruct fuel as [|k]; [cbn in F; lia|]. cbn [iso_walk]. rewrite M.
    cbn [map concat snd]. rewrite (IH k (s_prev r) C) by (cbn [length] in F; lia).
    reflexivity.
Qed.

Theorem iso_sections_chain_lemma : forall f ch,
  is_chain f ch ->
  iso_sections f = concat (map (fun p => s_sec (snd p) :: xrefstm_secs (f_at f) (snd p)) ch).
Proof.
  intros f ch [C ND]. unfold iso_sections. apply iso_walk_chain; [exact C|].
  eapply chain_length; eassumption.
Qed.

Lemma chain_found m : forall ch cur, chain_from m cur ch -> forall p, In p ch -> mfind (fst p) m = Some (snd p).
Proof.
  induction ch as [|[o r] older IH]; intros cur C p I; [destruct I|].
  cbn in C. destruct C as [_ [M C]]. destruct I as [<-|I]; [exact M|]. eapply IH; eassumption.
Qed.

(** only the sections ON the chain matter *)
Lemma iso_sections_nonhybrid_on f ch :
  is_chain f ch -> (forall p, In p ch -> xrefstm_secs (f_at f) (snd p) = []) ->
  iso_sections f = map (fun p => s_sec (snd p)) ch.
Proof.
  intros IC NH. rewrite (iso_sections_chain_lemma f ch IC). clear IC.
  induction ch as [|p older IH]; [reflexivity|].
  cbn [map concat]. rewrite (NH p) by (left; reflexivity).
  cbn [app]. f_equal. apply IH. intros q I. apply NH. right. exact I.
Qed.

(** * composition with the merge theorem *)
Theorem file_newest_wins_on_lemma : forall f ch,
  is_chain f ch -> (forall p, In p ch -> xrefstm_secs (f_at f) (snd p) = []) ->
  exists t, read_xref f = WOk t /\ forall n, lookup t n = loc_of (spec_lookup (revisions_of f) n).
Proof.
  intros f ch IC NH.
  exists (file_table (rev (map (fun p => s_sec (snd p)) ch))). split.
  - rewrite read_xref_collect, (chain_newest_first_lemma f ch IC). reflexivity.
  - intro n. rewrite merge_newest_wins_lemma. unfold revisions_of.
    rewrite (iso_sections_nonhybrid_on f ch IC NH). reflexivity.
Qed.

Theorem file_newest_wins_lemma : forall f,
  wf_chain f -> nonhybrid f ->
  exists t, read_xref f = WOk t /\ forall n, lookup t n = loc_of (spec_lookup (revisions_of f) n).
Proof.
  intros f [ch IC] NH. apply (file_newest_wins_on_lemma f ch IC).
  intros p I. apply (NH (fst p)). destruct IC as [C _]. eapply chain_found; eassumption.
Qed.

(** * what the code does with /XRefStm: nothing *)
Lemma mfind_strip m o :
  mfind o (map (fun p : N * srec => (fst p, strip_rec (snd p))) m) = option_map strip_rec (mfind o m).
Proof.
  induction m as [|[k r] rest IH]; [reflexivity|]. cbn [map mfind fst snd].
  destruct (k =? o); [reflexivity|exact IH].
Qed.

Lemma walk_strip m : forall fuel visited cur,
  walk (map (fun p : N * srec => (fst p, strip_rec (snd p))) m) fuel visited cur = walk m fuel visited cur.
Proof.
  induction fuel as [|k IH]; intros visited cur; destruct cur as [off|]; cbn [walk]; try reflexivity.
  destruct (existsb (N.eqb off) visited); [reflexivity|].
  rewrite mfind_strip. destruct (mfind off m) as [r|]; [|reflexivity].
  cbn [option_map strip_rec s_prev s_sec]. rewrite IH. reflexivity.
Qed.

Lemma read_xref_strip f : read_xref (strip f) = read_xref f.
Proof.
  rewrite !read_xref_collect. unfold collect_sections, strip, fuel_of. cbn [f_at f_start].
  rewrite map_length, walk_strip. reflexivity.
Qed.

Lemma chain_strip m : forall ch cur,
  chain_from m cur ch ->
  chain_from (map (fun p : N * srec => (fst p, strip_rec (snd p))) m) cur
             (map (fun p : N * srec => (fst p, strip_rec (snd p))) ch).
Proof.
  induction ch as [|[o r] older IH]; intros cur C; [exact C|].
  cbn in C. destruct C as [-> [M C]]. cbn [map chain_from fst snd]. split; [reflexivity|]. split.
  - rewrite mfind_strip, M. reflexivity.
  - apply IH. exact C.
Qed.

Lemma wf_chain_strip f : wf_chain f -> wf_chain (strip f).
Proof.
  intros [ch [C ND]]. exists (map (fun p : N * srec => (fst p, strip_rec (snd p))) ch). split.
  - apply chain_strip. exact C.
  - rewrite map_map. cbn [fst]. exact ND.
Qed.

Lemma nonhybrid_strip f : nonhybrid (strip f).
Proof.
  intros o r M. unfold strip in M. cbn [f_at] in M. rewrite mfind_strip in M.
  destruct (mfind o (f_at f)) as [r0|]; [|discriminate]. injection M as <-.
  unfold xrefstm_secs. cbn [strip_rec s_sec s_xrefstm]. destruct (s_sec r0); reflexivity.
Qed.

(** every well-formed chain, hybrid or not: the reader answers as if no trailer had /XRefStm *)
Theorem file_ignores_xrefstm_lemma : forall f,
  wf_chain f ->
  exists t, read_xref f = WOk t /\ forall n, lookup t n = loc_of (spec_lookup (revisions_of (strip f)) n).
Proof.
  intros f W. rewrite <- read_xref_strip.
  apply file_newest_wins_lemma; [apply wf_chain_strip; exact W|apply nonhybrid_strip].
Qed.

(** * the hybrid-reference witness (ISO 32000-1 7.5.8.4)
    base revision (offset 100): objects 1..4 in use, 5 and 6 free (the "hidden" objects);
    update (offset 400): classic section re-defining 2, trailer /Prev 100 /XRefStm 300;
    stream at 300: 5 = member 0 of object stream 6, 6 at offset 250. *)
Definition hyb_base : section :=
  Classic [(0, [CE 0 65535 false; CE 17 0 true; CE 60 0 true; CE 110 0 true; CE 160 0 true;
                CE 0 0 false; CE 0 0 false])].
Definition hyb_stm : section := XStream 1 [(5, [(T2, 6, 0); (T1, 250, 0)])].
Definition hyb_upd : section := Classic [(2, [CE 350 0 true])].
Definition hyb_file : xfile :=
  {| f_at := [(100, {| s_sec := hyb_base; s_prev := None; s_xrefstm := None |});
              (300, {| s_sec := hyb_stm; s_prev := None; s_xrefstm := None |});
              (400, {| s_sec := hyb_upd; s_prev := Some 100; s_xrefstm := Some 300 |})];
     f_start := 400 |}.

Lemma hyb_file_wf : wf_chain hyb_file.
Proof.
  exists [(400, {| s_sec := hyb_upd; s_prev := Some 100; s_xrefstm := Some 300 |});
          (100, {| s_sec := hyb_base; s_prev := None; s_xrefstm := None |})].
  split.
  - cbn. repeat split.
  - cbn. repeat constructor; cbn; intuition discriminate.
Qed.

Lemma hybrid_refuted_lemma :
  exists f t n, wf_chain f /\ read_xref f = WOk t /\ lookup t n <> loc_of (spec_lookup (revisions_of f) n).
Proof.
  exists hyb_file, (file_table [hyb_base; hyb_upd]), 5. split; [exact hyb_file_wf|].
  split; [vm_compute; reflexivity|]. vm_compute. discriminate.
Qed.

(** what each side answers on the witness: the code reads the hidden objects 5 and 6 as free (null),
    the standard finds them through the /XRefStm stream; everything else agrees *)
Example hybrid_witness_values :
  read_xref hyb_file = WOk (file_table [hyb_base; hyb_upd]) /\
  map (lookup (file_table [hyb_base; hyb_upd])) [1; 2; 5; 6] = [LOffset 17; LOffset 350; LNull; LNull] /\
  map (fun n => loc_of (spec_lookup (revisions_of hyb_file) n)) [1; 2; 5; 6]
    = [LOffset 17; LOffset 350; LCompressed 6 0; LOffset 250].
Proof. vm_compute. repeat split. Qed.

(** * the candidate repair meets the standard on every well-formed chain, hybrid or not *)
Lemma walk_hybrid_chain m : forall ch fuel visited cur,
  chain_from m cur ch -> NoDup (map fst ch) ->
  (forall o, In o (map fst ch) -> ~ In o visited) ->
  (length ch < fuel)%nat ->
  walk_hybrid m fuel visited cur = WOk (concat (map (fun p => s_sec (snd p) :: xrefstm_secs m (snd p)) ch)).
Proof.
  induction ch as [|[o r] older IH]; intros fuel visited cur C ND FR F.
  - cbn in C. subst cur. destruct fuel; reflexivity.
  - cbn in C. destruct C as [-> [M C]].
    destruct fuel as [|k]; [cbn in F; lia|]. cbn [walk_hybrid].
    assert (E : existsb (N.eqb o) visited = false) by (apply existsb_eqb_false; apply FR; left; reflexivity).
    rewrite E, M.
    cbn [map fst] in ND. inversion ND as [|x xs NI ND' Q]. subst x xs.
    rewrite (IH k (o :: visited) (s_prev r) C ND').
    + reflexivity.
    + intros o' I [<-|I']; [contradiction|]. apply (FR o'); [right; exact I|exact I'].
    + cbn [length] in F. lia.
Qed.

Theorem hybrid_repair_newest_wins_lemma : forall f,
  wf_chain f ->
  exists l, collect_sections_hybrid f = WOk l /\
            forall n, lookup (file_table (rev l)) n = loc_of (spec_lookup (revisions_of f) n).
Proof.
  intros f [ch IC]. exists (iso_sections f). split.
  - rewrite (iso_sections_chain_lemma f ch IC). destruct IC as [C ND].
    unfold collect_sections_hybrid. apply walk_hybrid_chain; try assumption.
    + intros o _ [].
    + unfold fuel_of. pose proof (chain_length _ _ _ C ND). lia.
  - intro n. rewrite merge_newest_wins_lemma. reflexivity.
Qed.

Example hybrid_repair_on_witness :
  collect_sections_hybrid hyb_file = WOk [hyb_upd; hyb_stm; hyb_base] /\
  map (lookup (file_table (rev [hyb_upd; hyb_stm; hyb_base]))) [1; 2; 5; 6]
    = [LOffset 17; LOffset 350; LCompressed 6 0; LOffset 250].
Proof. vm_compute. repeat split. Qed.

(** * startxref: the last complete `startxref` / number pair of the tail wins *)
(** [settled pre]: scanning [pre] from its first line, no `startxref` line of [pre] takes the line
    after the end of [pre] as its offset line *)
Inductive settled : list tline -> Prop :=
| St_nil : settled []
| St_pair nxt r : settled r -> settled (LStartxref :: nxt :: r)
| St_num k r : settled r -> settled (LNum k :: r)
| St_other r : settled r -> settled (LOther :: r).

Lemma find_start_no_start : forall post last,
  ~ In LStartxref post -> find_start post last = last.
Proof.
  induction post as [|x r IH]; intros last NI; [reflexivity|].
  destruct x; cbn [find_start].
  - exfalso. apply NI. left. reflexivity.
  - apply IH. intro I. apply NI. right. exact I.
  - apply IH. intro I. apply NI. right. exact I.
Qed.

Lemma find_start_app : forall pre, settled pre -> forall rest last,
  find_start (pre ++ rest) last = find_start rest (find_start pre last).
Proof.
  induction 1 as [|nxt r S IH|k r S IH|r S IH]; intros rest last; cbn [app find_start].
  - reflexivity.
  - apply IH.
  - apply IH.
  - apply IH.
Qed.

Theorem startxref_last_wins_lemma : forall pre k post,
  settled pre -> ~ In LStartxref post ->
  find_start (pre ++ LStartxref :: LNum k :: post) None = Some k.
Proof.
  intros pre k post S NI. rewrite (find_start_app pre S). cbn [find_start].
  apply find_start_no_start. exact NI.
Qed.

(** three revisions appended one after the other; the tail window starts inside the first *)
Example startxref_nonvacuous :
  let pre := [LNum 116; LOther; LOther; LOther; LStartxref; LNum 812; LOther; LOther] in
  settled pre /\
  find_start (pre ++ LStartxref :: LNum 1490 :: [LOther]) None = Some 1490.
Proof. split; [repeat constructor|reflexivity]. Qed.

(** a `startxref` line directly followed by another one swallows it (lines.next()): the pair after
    it is then not seen — why [settled] is needed *)
Example startxref_dangling :
  find_start ([LStartxref] ++ LStartxref :: LNum 1490 :: [LOther]) None = None.
Proof. reflexivity. Qed.

(** * whole pipeline: tail + offset map *)
Theorem open_newest_wins_lemma : forall pre k post m,
  settled pre -> ~ In LStartxref post ->
  let f := {| f_at := m; f_start := k |} in
  wf_chain f -> nonhybrid f ->
  exists t, open_xref (pre ++ LStartxref :: LNum k :: post) m = WOk t /\
            forall n, lookup t n = loc_of (spec_lookup (revisions_of f) n).
Proof.
  intros pre k post m S NI f W NH. unfold open_xref.
  rewrite (startxref_last_wins_lemma pre k post S NI).
  apply file_newest_wins_lemma; assumption.
Qed.

(** * non-vacuity: a three-revision non-hybrid chain (classic, xref stream, classic) with a stray
    section in the map that the chain does not reach *)
Definition ex_r1 : section := Classic [(0, [CE 0 65535 false; CE 17 0 true; CE 60 0 true; CE 110 0 true])].
Definition ex_r2 : section := XStream 1 [(2, [(T2, 4, 0)]); (4, [(T1, 500, 0)])].
Definition ex_r3 : section := Classic [(2, [CE 700 0 true]); (3, [CE 0 1 false])].
Definition ex_file : xfile :=
  {| f_at := [(900, {| s_sec := ex_r3; s_prev := Some 600; s_xrefstm := None |});
              (200, {| s_sec := ex_r1; s_prev := None; s_xrefstm := None |});
              (50,  {| s_sec := sB;    s_prev := Some 900; s_xrefstm := None |});
              (600, {| s_sec := ex_r2; s_prev := Some 200; s_xrefstm := None |})];
     f_start := 900 |}.

Example ex_file_hyps : wf_chain ex_file /\ nonhybrid ex_file.
Proof.
  split.
  - exists [(900, {| s_sec := ex_r3; s_prev := Some 600; s_xrefstm := None |});
            (600, {| s_sec := ex_r2; s_prev := Some 200; s_xrefstm := None |});
            (200, {| s_sec := ex_r1; s_prev := None; s_xrefstm := None |})].
    split.
    + cbn. repeat split.
    + cbn. repeat constructor; cbn; intuition discriminate.
  - intros o r M. unfold xrefstm_secs.
    assert (X : s_xrefstm r = None).
    { cbn in M. repeat match type of M with
        | (if ?c then _ else _) = _ => destruct c; [injection M as <-; reflexivity|]
        end. discriminate. }
    rewrite X. destruct (s_sec r); reflexivity.
Qed.

Example ex_file_values :
  collect_sections ex_file = WOk [ex_r3; ex_r2; ex_r1] /\
  (exists t, read_xref ex_file = WOk t /\
     map (lookup t) [1; 2; 3; 4; 9] = [LOffset 17; LOffset 700; LNull; LOffset 500; LMissing]) /\
  map (fun n => loc_of (spec_lookup (revisions_of ex_file) n)) [1; 2; 3; 4; 9]
    = [LOffset 17; LOffset 700; LNull; LOffset 500; LMissing].
Proof.
  split; [vm_compute; reflexivity|]. split.
  - eexists. split; [vm_compute; reflexivity|]. vm_compute. reflexivity.
  - vm_compute. reflexivity.
Qed.
