(** C04 — the newest revision of an object always wins.

    Code-shaped model of  parser/xref.rs  (XRefTable: the two maps [entries] and
    [extended_entries]; parsing of one classic section / one xref stream; the
    newest-first merge along the /Prev chain in
    [parse_with_incremental_updates_options]; [add_headers_latest_wins] used by the
    hybrid fill-in and by the recovery scan), of  parser/xref_stream.rs
    ([to_xref_entries]: field defaults, type dispatch) and of the dispatch at the
    head of  parser/reader.rs [load_object_from_disk]  (compressed entry first, then
    free -> null, then offset).

    The model is of the tree WITH  fix_c04_stale_compressed.patch  and
    fix_c04_w0_default.patch  applied (see notes/C04.md); the two definitions
    [merge_one_pinned] / [code_type_pinned] keep the pinned behaviour so that the
    refutation of the property on the pinned tree stays a checked lemma.

    HashMap = association list, the first binding of a key is the current one
    ([minsert] shadows); iteration order is never observed because the merged
    loops only insert keys that are absent. *)
From OxVerif Require Import Base.Util.

(** * finite maps *)
Definition amap (V : Type) := list (N * V).

Fixpoint mfind {V} (k : N) (m : amap V) : option V :=
  match m with
  | [] => None
  | (k', v) :: r => if k' =? k then Some v else mfind k r
  end.
Definition minsert {V} (k : N) (v : V) (m : amap V) : amap V := (k, v) :: m.
Fixpoint mremove {V} (k : N) (m : amap V) : amap V :=
  match m with
  | [] => []
  | (k', v) :: r => if k' =? k then mremove k r else (k', v) :: mremove k r
  end.
Definition mmem {V} (k : N) (m : amap V) : bool :=
  match mfind k m with Some _ => true | None => false end.

(** * the table *)
Record entry := { e_off : N; e_gen : N; e_use : bool }.
Record tbl := { entries : amap entry; ext : amap (N * N) }.
Definition empty : tbl := {| entries := []; ext := [] |}.

(** * one cross-reference section as it stands in the file *)
Inductive centry := CE (off gen : N) (inuse : bool).      (* "oooooooooo ggggg n|f" *)
Inductive xtype := T0 | T1 | T2.
Definition xrow := (xtype * N * N)%type.                   (* type, field 2, field 3 *)
Inductive section :=
| Classic (subs : list (N * list centry))                  (* subsections: first, lines *)
| XStream (w0 : N) (subs : list (N * list xrow)).          (* /W[0]; /Index subsections; rows.
     When w0 = 0 the type field is absent from the data; the [xtype] stored in the row is
     then what a zero-width read yields (T0) and is ignored by the fixed code. *)

Fixpoint number {A} (first : N) (l : list A) : list (N * A) :=
  match l with
  | [] => []
  | x :: r => (first, x) :: number (N.succ first) r
  end.
Definition flatten {A} (subs : list (N * list A)) : list (N * A) :=
  concat (map (fun s => number (fst s) (snd s)) subs).

(** xref_stream.rs to_xref_entries: value of the type field (fixed: default 1) *)
Definition code_type (w0 : N) (t : xtype) : xtype := if w0 =? 0 then T1 else t.
(** pinned tree: a zero-width field reads as 0 *)
Definition code_type_pinned (w0 : N) (t : xtype) : xtype := if w0 =? 0 then T0 else t.

(** xref.rs parse_traditional_xref_with_options: table.entries.insert(first+i, entry) *)
Definition classic_insert (t : tbl) (p : N * centry) : tbl :=
  let '(n, CE off gen u) := p in
  {| entries := minsert n {| e_off := off; e_gen := gen; e_use := u |} (entries t); ext := ext t |}.

(** xref.rs parse_primary_with_options, "Copy entries from xref stream" *)
Definition stream_insert_with (ty : N -> xtype -> xtype) (w0 : N) (t : tbl) (p : N * xrow) : tbl :=
  let '(n, (t0, f2, f3)) := p in
  match ty w0 t0 with
  | T0 => {| entries := minsert n {| e_off := f2; e_gen := f3; e_use := false |} (entries t);
             ext := mremove n (ext t) |}
  | T1 => {| entries := minsert n {| e_off := f2; e_gen := f3; e_use := true |} (entries t);
             ext := mremove n (ext t) |}
  | T2 => {| entries := minsert n {| e_off := 0; e_gen := 0; e_use := true |} (entries t);
             ext := minsert n (f2, f3) (ext t) |}
  end.
Definition stream_insert := stream_insert_with code_type.

Definition parse_section (s : section) : tbl :=
  match s with
  | Classic subs => fold_left classic_insert (flatten subs) empty
  | XStream w0 subs => fold_left (stream_insert w0) (flatten subs) empty
  end.

(** * merge along the /Prev chain (fixed code):
    for (n, e) in table.entries { if merged.entries has no n { insert e; move table.ext[n] too } } *)
Definition merge_step (t : tbl) (m : tbl) (p : N * entry) : tbl :=
  let '(n, e) := p in
  match mfind n (entries m) with
  | Some _ => m
  | None => {| entries := minsert n e (entries m);
               ext := match mfind n (ext t) with
                      | Some x => minsert n x (ext m)
                      | None => ext m
                      end |}
  end.
Definition merge_one (m t : tbl) : tbl := fold_left (merge_step t) (entries t) m.

(** [merge chain]: chain = the tables in the order the /Prev chain is walked (newest first) *)
Definition merge (newest_first : list tbl) : tbl := fold_left merge_one newest_first empty.

(** pinned tree: both maps merged independently with or_insert *)
Definition or_insert {V} (m : amap V) (p : N * V) : amap V :=
  match mfind (fst p) m with Some _ => m | None => p :: m end.
Definition merge_one_pinned (m t : tbl) : tbl :=
  {| entries := fold_left or_insert (entries t) (entries m);
     ext := fold_left or_insert (ext t) (ext m) |}.
Definition merge_pinned (newest_first : list tbl) : tbl := fold_left merge_one_pinned newest_first empty.

(** * add_headers_latest_wins (hybrid fill-in with check_extended = true, recovery with false) *)
Definition header := (N * N * N)%type.     (* object number, generation, offset of the "N G obj" line *)
Definition latest_of (hs : list header) : amap header :=       (* ascending => last wins *)
  fold_left (fun m h => minsert (fst (fst h)) h m) hs [].
Fixpoint keys_once {V} (m : amap V) (seen : list N) : list (N * V) :=
  match m with
  | [] => []
  | (k, v) :: r => if existsb (N.eqb k) seen then keys_once r seen else (k, v) :: keys_once r (k :: seen)
  end.
Definition add_headers (t : tbl) (hs : list header) (check_extended : bool) : tbl :=
  fold_left (fun t kv =>
      let '(n, (_, g, off)) := kv in
      if mmem n (entries t) || (check_extended && mmem n (ext t)) then t
      else {| entries := minsert n {| e_off := off; e_gen := g; e_use := true |} (entries t); ext := ext t |})
    (keys_once (latest_of hs) []) t.
Definition recover (hs : list header) : tbl := add_headers empty hs false.

(** * reader.rs load_object_from_disk: where the object is taken from *)
Inductive loc := LCompressed (stm idx : N) | LNull | LOffset (off : N) | LMissing.
Definition lookup (t : tbl) (n : N) : loc :=
  match mfind n (ext t) with
  | Some (s, i) => LCompressed s i
  | None =>
      match mfind n (entries t) with
      | Some e => if e_use e then LOffset (e_off e) else LNull
      | None => LMissing
      end
  end.

(** whole pipeline on a file whose sections are listed oldest first *)
Definition file_table (secs : list section) : tbl := merge (map parse_section (rev secs)).
Definition file_table_lenient (secs : list section) (hs : list header) : tbl :=
  add_headers (file_table secs) hs true.

(** * ISO-shaped specification (ISO 32000-1 7.5.4, 7.5.6, 7.5.8.3 Table 18) *)
Inductive def := Direct (off : N) | InStm (stm idx : N) | Free.
(** one revision = what its cross-reference section says, in section order; should a number be
    listed twice in one section the later line stands *)
Definition revision := list (N * def).
Fixpoint rev_find (r : revision) (n : N) : option def :=
  match r with
  | [] => None
  | (k, d) :: rest =>
      match rev_find rest n with
      | Some d' => Some d'
      | None => if k =? n then Some d else None
      end
  end.
(** history oldest first: the definition in the newest revision that mentions n *)
Fixpoint spec_lookup (h : list revision) (n : N) : option def :=
  match h with
  | [] => None
  | r :: newer =>
      match spec_lookup newer n with
      | Some d => Some d
      | None => rev_find r n
      end
  end.
Definition loc_of (d : option def) : loc :=
  match d with
  | Some (Direct off) => LOffset off
  | Some (InStm s i) => LCompressed s i
  | Some Free => LNull
  | None => LMissing
  end.

(** Table 17: "If the first element is zero, the type field shall not be present, and shall
    default to type 1";  Table 18: type 0 free, 1 uncompressed (field 2 = offset),
    2 compressed (field 2 = object stream number, field 3 = index) *)
Definition iso_type (w0 : N) (t : xtype) : xtype := match w0 with 0 => T1 | _ => t end.
Definition def_of_centry (c : centry) : def := let '(CE off _ u) := c in if u then Direct off else Free.
Definition def_of_row (w0 : N) (r : xrow) : def :=
  let '(t, f2, f3) := r in
  match iso_type w0 t with T0 => Free | T1 => Direct f2 | T2 => InStm f2 f3 end.
Definition rev_of_section (s : section) : revision :=
  match s with
  | Classic subs => map (fun p => (fst p, def_of_centry (snd p))) (flatten subs)
  | XStream w0 subs => map (fun p => (fst p, def_of_row w0 (snd p))) (flatten subs)
  end.

(** recovery: every header is a definition, later in the file = newer *)
Definition history_of_headers (hs : list header) : list revision :=
  map (fun h : header => [(fst (fst h), Direct (snd h))]) hs.

(** * Reading through a location: the part of the file the correspondence needs *)
Inductive content :=
| CInt (v : N)                              (* "n g obj <integer> endobj" *)
| CStm (objs : list (N * N)).               (* an object stream: (object number, integer payload) *)
Definition store := amap content.            (* keyed by byte offset *)

Inductive result := RVal (v : N) | RNull | RStm | RErr.
Definition result_eqb (a b : result) : bool :=
  match a, b with
  | RVal x, RVal y => x =? y
  | RNull, RNull | RStm, RStm | RErr, RErr => true
  | _, _ => false
  end.

(** reader.rs: get_object / get_compressed_object (the container is itself looked up, by number) *)
Definition read_loc (look : N -> loc) (st : store) (n : N) : result :=
  match look n with
  | LNull => RNull
  | LMissing => RErr
  | LOffset off =>
      match mfind off st with
      | Some (CInt v) => RVal v
      | Some (CStm _) => RStm
      | None => RErr
      end
  | LCompressed s _ =>
      match look s with
      | LOffset off =>
          match mfind off st with
          | Some (CStm objs) => match mfind n objs with Some v => RVal v | None => RErr end
          | _ => RErr
          end
      | _ => RErr
      end
  end.

(** * correspondence cases *)
Definition def_eqb (a b : def) : bool :=
  match a, b with
  | Direct x, Direct y => x =? y
  | InStm s i, InStm s' i' => (s =? s') && (i =? i')
  | Free, Free => true
  | _, _ => false
  end.
Definition rev_eqb : revision -> revision -> bool :=
  list_eqb (fun a b => (fst a =? fst b) && def_eqb (snd a) (snd b)).

(** mode 0: strict/default options (merge only); 1: lenient options (merge + hybrid fill-in);
    2: cross-reference data damaged, table rebuilt by the header scan *)
Record case := {
  c_mode : N;
  c_secs : list section;          (* sections as written, oldest first *)
  c_hist : list revision;         (* the history the generator meant to write, oldest first *)
  c_hdrs : list header;           (* every "N G obj" line of the file, ascending offset *)
  c_store : store;
  c_queries : list (N * result)   (* object number, what the implementation returned *)
}.

Definition model_table (c : case) : tbl :=
  match c_mode c with
  | 0 => file_table (c_secs c)
  | 1 => file_table_lenient (c_secs c) (c_hdrs c)
  | _ => recover (c_hdrs c)
  end.
Definition spec_history (c : case) : list revision :=
  match c_mode c with
  | 0 | 1 => c_hist c
  | _ => history_of_headers (c_hdrs c)
  end.

Definition case_code (c : case) : N :=
  let t := model_table c in
  let h := spec_history c in
  let rendered := match c_mode c with
                  | 0 | 1 => list_eqb rev_eqb (map rev_of_section (c_secs c)) (c_hist c)
                  | _ => true end in
  let model_ok := rendered && forallb (fun q => result_eqb (read_loc (lookup t) (c_store c) (fst q)) (snd q)) (c_queries c) in
  let prop_ok := forallb (fun q => result_eqb (read_loc (fun n => loc_of (spec_lookup h n)) (c_store c) (fst q)) (snd q)) (c_queries c) in
  code_of model_ok prop_ok.
