(** C04 — how the reader OBTAINS the list of cross-reference sections.

    Code-shaped model of  parser/xref.rs
      [find_xref_offset]                         the `startxref` search in the tail of the file,
      [parse_with_incremental_updates_options]   the `while let Some(offset) = current_offset` loop:
                                                 visited set, seek, [parse_primary_with_options],
                                                 `/Prev` of the section's trailer (classic trailer or
                                                 xref-stream dictionary — [table.trailer] in both
                                                 cases), merge into [merged_table].
    The file is abstract: a finite map  byte offset -> what parses there  plus the tail lines.
    What parses at an offset is a record {section; /Prev; /XRefStm} ([srec]); an offset that is not
    in the map is an offset where [parse_primary_with_options] returns Err (the `?` makes the whole
    function return Err; [parse_with_options] then falls back to the header scan or fails).

    The model is of the tree WITH  fix_c04_hybrid_xrefstm.patch : after a section whose trailer is
    not an xref-stream dictionary and has `/XRefStm x`, the loop seeks to x, parses what is there
    with [parse_primary_with_options] (`?`: an error ends the whole function) and merges it before
    `/Prev` is followed; that section's own /Prev and /XRefStm are not followed and its offset does
    not enter the visited set.  The pinned loop never looked at `/XRefStm` (the only mentions of the
    key were the uncalled accessors [XRefStream::is_hybrid] / [get_xref_stm_offset]); it is kept as
    [walk_pinned] so that its refutation stays a checked lemma.  Model.v is unchanged. *)
From OxVerif Require Import Base.Util C04.Model.

(** * the file *)
Record srec := {
  s_sec : section;            (* the section that parses at this offset *)
  s_prev : option N;          (* /Prev of its trailer / stream dictionary *)
  s_xrefstm : option N        (* /XRefStm of its trailer (hybrid-reference file, 7.5.8.4) *)
}.
Record xfile := { f_at : amap srec; f_start : N }.

(** * the loop of parse_with_incremental_updates_options *)
Inductive wres (A : Type) :=
| WOk (a : A)
| WErr           (* a section failed to parse: Err is propagated by `?` *)
| WFuel.         (* artefact of the structural recursion; never returned, see c04_chain_terminates *)
Arguments WOk {A} a.
Arguments WErr {A}.
Arguments WFuel {A}.

(** /XRefStm is read only from a trailer that is not an xref-stream dictionary *)
Definition xrefstm_target (r : srec) : option N :=
  match s_sec r with Classic _ => s_xrefstm r | XStream _ _ => None end.
(** seek to /XRefStm + parse_primary_with_options(..)?  : nothing to do / one section / Err *)
Definition stm_parse (m : amap srec) (r : srec) : wres (list section) :=
  match xrefstm_target r with
  | None => WOk []
  | Some x => match mfind x m with Some rx => WOk [s_sec rx] | None => WErr end
  end.

(** the sections in the order the loop parses (and merges) them *)
Fixpoint walk (m : amap srec) (fuel : nat) (visited : list N) (cur : option N) : wres (list section) :=
  match cur with
  | None => WOk []                                             (* while let Some(offset) = current_offset *)
  | Some off =>
      match fuel with
      | O => WFuel
      | S k =>
          if existsb (N.eqb off) visited then WOk []           (* visited_offsets.contains(&offset) => break *)
          else match mfind off m with                          (* seek + parse_primary_with_options(..)? *)
               | None => WErr
               | Some r =>
                   match stm_parse m r with                    (* if let Some(stm_offset) = xref_stm_offset *)
                   | WOk hs =>
                       match walk m k (off :: visited) (s_prev r) with   (* current_offset = prev_offset *)
                       | WOk l => WOk (s_sec r :: hs ++ l)
                       | WErr => WErr
                       | WFuel => WFuel
                       end
                   | WErr => WErr
                   | WFuel => WFuel
                   end
               end
      end
  end.

(** the same loop as coded, carrying [merged_table] *)
Fixpoint walk_merge (m : amap srec) (fuel : nat) (visited : list N) (cur : option N) (merged : tbl) : wres tbl :=
  match cur with
  | None => WOk merged
  | Some off =>
      match fuel with
      | O => WFuel
      | S k =>
          if existsb (N.eqb off) visited then WOk merged
          else match mfind off m with
               | None => WErr
               | Some r =>
                   let merged1 := merge_one merged (parse_section (s_sec r)) in
                   match stm_parse m r with
                   | WOk hs => walk_merge m k (off :: visited) (s_prev r)
                                 (fold_left merge_one (map parse_section hs) merged1)
                   | WErr => WErr
                   | WFuel => WFuel
                   end
               end
      end
  end.

Definition fuel_of (f : xfile) : nat := S (length (f_at f)).
(** newest first *)
Definition collect_sections (f : xfile) : wres (list section) :=
  walk (f_at f) (fuel_of f) [] (Some (f_start f)).
Definition read_xref (f : xfile) : wres tbl :=
  walk_merge (f_at f) (fuel_of f) [] (Some (f_start f)) empty.

(** * the pinned loop (before fix_c04_hybrid_xrefstm.patch): /XRefStm never read *)
Fixpoint walk_pinned (m : amap srec) (fuel : nat) (visited : list N) (cur : option N) : wres (list section) :=
  match cur with
  | None => WOk []
  | Some off =>
      match fuel with
      | O => WFuel
      | S k =>
          if existsb (N.eqb off) visited then WOk []
          else match mfind off m with
               | None => WErr
               | Some r =>
                   match walk_pinned m k (off :: visited) (s_prev r) with
                   | WOk l => WOk (s_sec r :: l)
                   | WErr => WErr
                   | WFuel => WFuel
                   end
               end
      end
  end.
Fixpoint walk_merge_pinned (m : amap srec) (fuel : nat) (visited : list N) (cur : option N) (merged : tbl) : wres tbl :=
  match cur with
  | None => WOk merged
  | Some off =>
      match fuel with
      | O => WFuel
      | S k =>
          if existsb (N.eqb off) visited then WOk merged
          else match mfind off m with
               | None => WErr
               | Some r => walk_merge_pinned m k (off :: visited) (s_prev r) (merge_one merged (parse_section (s_sec r)))
               end
      end
  end.
Definition read_xref_pinned (f : xfile) : wres tbl :=
  walk_merge_pinned (f_at f) (fuel_of f) [] (Some (f_start f)) empty.

(** the mutation "no visited set" (for the non-termination witness) *)
Fixpoint walk_novisit (m : amap srec) (fuel : nat) (cur : option N) : wres (list section) :=
  match cur with
  | None => WOk []
  | Some off =>
      match fuel with
      | O => WFuel
      | S k =>
          match mfind off m with
          | None => WErr
          | Some r =>
              match walk_novisit m k (s_prev r) with
              | WOk l => WOk (s_sec r :: l)
              | WErr => WErr
              | WFuel => WFuel
              end
          end
      end
  end.

(** * find_xref_offset: the last `startxref` line of the tail window whose next line is a number *)
Inductive tline := LStartxref | LNum (k : N) | LOther.
Fixpoint find_start (ls : list tline) (last : option N) : option N :=
  match ls with
  | [] => last
  | LStartxref :: nxt :: r =>                       (* lines.next() consumes the following line *)
      find_start r (match nxt with LNum k => Some k | _ => last end)
  | _ :: r => find_start r last
  end.

(** tail lines + offset map -> table *)
Definition open_xref (tail : list tline) (m : amap srec) : wres tbl :=
  match find_start tail None with
  | None => WErr                                    (* last_offset.ok_or(InvalidXRef) *)
  | Some s => read_xref {| f_at := m; f_start := s |}
  end.

(** * ISO-shaped side (ISO 32000-1 7.5.5 /Prev, 7.5.6 incremental updates, 7.5.8.4 hybrid files)

    7.5.8.4: "if an entry is not found in any given standard cross-reference section, the search
    shall proceed to a cross-reference stream specified by the XRefStm entry before looking in the
    previous cross-reference section (the Prev entry in the trailer)".
    So, newest first: the section of an update, then the stream its trailer names with /XRefStm,
    then the /Prev chain.  /XRefStm only has a meaning in a classic trailer. *)
Definition xrefstm_secs (m : amap srec) (r : srec) : list section :=
  match s_sec r, s_xrefstm r with
  | Classic _, Some x => match mfind x m with Some rx => [s_sec rx] | None => [] end
  | _, _ => []
  end.

Fixpoint iso_walk (m : amap srec) (fuel : nat) (cur : option N) : list section :=
  match cur, fuel with
  | Some off, S k =>
      match mfind off m with
      | Some r => s_sec r :: xrefstm_secs m r ++ iso_walk m k (s_prev r)
      | None => []
      end
  | _, _ => []
  end.
Definition iso_sections (f : xfile) : list section :=                 (* newest first *)
  iso_walk (f_at f) (length (f_at f)) (Some (f_start f)).
(** the history the file denotes, oldest first (the argument [spec_lookup] expects) *)
Definition revisions_of (f : xfile) : list revision := map rev_of_section (rev (iso_sections f)).

(** a well-formed revision chain, newest first: the newest section is at [startxref], each section's
    /Prev is the offset of the section of the revision before it, the oldest has no /Prev, and no
    offset occurs twice *)
Fixpoint chain_from (m : amap srec) (cur : option N) (ch : list (N * srec)) : Prop :=
  match ch with
  | [] => cur = None
  | (o, r) :: older => cur = Some o /\ mfind o m = Some r /\ chain_from m (s_prev r) older
  end.
Definition is_prev_chain (f : xfile) (ch : list (N * srec)) : Prop :=
  chain_from (f_at f) (Some (f_start f)) ch /\ NoDup (map fst ch).
(** every /XRefStm of the chain names an offset where a section parses *)
Definition xrefstm_ok (m : amap srec) (r : srec) : Prop :=
  match xrefstm_target r with Some x => mfind x m <> None | None => True end.
Definition is_chain (f : xfile) (ch : list (N * srec)) : Prop :=
  is_prev_chain f ch /\ forall p, In p ch -> xrefstm_ok (f_at f) (snd p).
Definition wf_chain (f : xfile) : Prop := exists ch, is_chain f ch.
Definition wf_prev_chain (f : xfile) : Prop := exists ch, is_prev_chain f ch.

(** a /Prev path of any file: from [cur] through the sections [ch] (newest first), arriving at [stop]
    ([None]: the last section has no /Prev; [Some b]: the last /Prev is [b]) *)
Fixpoint path_from (m : amap srec) (cur : option N) (ch : list (N * srec)) (stop : option N) : Prop :=
  match ch with
  | [] => cur = stop
  | (o, r) :: older => cur = Some o /\ mfind o m = Some r /\ path_from m (s_prev r) older stop
  end.

(** no section of the file is a hybrid one *)
Definition nonhybrid (f : xfile) : Prop :=
  forall o r, mfind o (f_at f) = Some r -> xrefstm_secs (f_at f) r = [].

(** the file with every /XRefStm key deleted *)
Definition strip_rec (r : srec) : srec := {| s_sec := s_sec r; s_prev := s_prev r; s_xrefstm := None |}.
Definition strip (f : xfile) : xfile :=
  {| f_at := map (fun p => (fst p, strip_rec (snd p))) (f_at f); f_start := f_start f |}.
