(** C23 — the standard security handler's algorithms, transcribed from the standards:
    ISO 32000-1:2008 7.6.3.3/7.6.3.4 Algorithms 1, 2, 3, 4, 5, 6, 7 (revisions 2-4),
    Adobe Supplement to ISO 32000 (extension level 3) for revision 5, and
    ISO 32000-2:2020 7.6.4.3/7.6.4.4 Algorithms 2.A, 2.B, 8-13 (revision 6).
    Passwords enter as byte strings (already PDFDocEncoded for R2-R4, UTF-8 for R5/R6). *)
From OxVerif Require Import Base.Util C23.Tab C23.Rc4 C23.Md5 C23.Sha2 C23.Aes C23.Cbc.

(** SP 800-38A F.2.1 / F.2.5 (CBC-AES128, CBC-AES256 first two blocks) *)
Example cbc_aes128_sp800_38a :
  cbc_encrypt_raw cipher (unhex "2b7e151628aed2a6abf7158809cf4f3c") (unhex "000102030405060708090a0b0c0d0e0f")
    (unhex "6bc1bee22e409f96e93d7e117393172aae2d8a571e03ac9c9eb76fac45af8e51")
  = unhex "7649abac8119b246cee98e9b12e9197d5086cb9b507219ee95db113a917678b2".
Proof. vm_compute. reflexivity. Qed.
Example cbc_aes256_sp800_38a :
  cbc_encrypt_raw cipher (unhex "603deb1015ca71be2b73aef0857d77811f352c073b6108d72d9810a30914dff4")
    (unhex "000102030405060708090a0b0c0d0e0f")
    (unhex "6bc1bee22e409f96e93d7e117393172aae2d8a571e03ac9c9eb76fac45af8e51")
  = unhex "f58c4c04d6e5f1ba779eabfb5f7bfbd69cfc4e967edb808d679f777bc6702c7d".
Proof. vm_compute. reflexivity. Qed.
Example cbc_aes128_sp800_38a_dec :
  cbc_decrypt_raw inv_cipher (unhex "2b7e151628aed2a6abf7158809cf4f3c") (unhex "000102030405060708090a0b0c0d0e0f")
    (unhex "7649abac8119b246cee98e9b12e9197d5086cb9b507219ee95db113a917678b2")
  = unhex "6bc1bee22e409f96e93d7e117393172aae2d8a571e03ac9c9eb76fac45af8e51".
Proof. vm_compute. reflexivity. Qed.

(** * Revisions 2-4 *)

(** the 32-byte padding string of Algorithm 2 step (a) *)
Definition pad_string : list N :=
  unhex "28bf4e5e4e758a4164004e56fffa01082e2e00b6d0683e802f0ca9fe6453697a".

(** Algorithm 2 (a): pad or truncate to exactly 32 bytes *)
Definition pad32 (pw : list N) : list N := firstn 32 (pw ++ pad_string).

(** PDFDocEncoding of a password given as Unicode code points — partial table: printable ASCII
    and U+00A1..U+00FF except U+00AD map to themselves (ISO 32000-1 Annex D.2); other
    characters are outside this table (None). *)
Definition pdfdoc_char (c : N) : option N :=
  if (32 <=? c) && (c <=? 126) then Some c
  else if (161 <=? c) && (c <=? 255) && negb (c =? 173) then Some c
  else None.
Fixpoint pdfdoc_encode (cps : list N) : option (list N) :=
  match cps with
  | [] => Some []
  | c :: r => match pdfdoc_char c, pdfdoc_encode r with
              | Some b, Some l => Some (b :: l)
              | _, _ => None
              end
  end.

(** UTF-8 (RFC 3629) of a list of Unicode scalar values *)
Definition utf8_char (c : N) : list N :=
  if c <? 128 then [c]
  else if c <? 2048 then [192 + c / 64; 128 + c mod 64]
  else if c <? 65536 then [224 + c / 4096; 128 + (c / 64) mod 64; 128 + c mod 64]
  else [240 + c / 262144; 128 + (c / 4096) mod 64; 128 + (c / 64) mod 64; 128 + c mod 64].
Definition utf8 (cps : list N) : list N := flat_map utf8_char cps.

Definition md5_n (n : nat) (x : list N) : list N := iter_n n md5 x.

(** Algorithm 2: file encryption key.  [R] revision, [n] key length in bytes (5 for R2),
    [O] the O entry, [P] the permission word, [id] first element of the file identifier,
    [encmeta] EncryptMetadata. *)
Definition alg2 (R : N) (n : nat) (pw O : list N) (P : N) (id : list N) (encmeta : bool) : list N :=
  let input := pad32 pw ++ O ++ le_bytes 4 P ++ id
               ++ (if (4 <=? R) && negb encmeta then [255; 255; 255; 255] else []) in
  let h := md5 input in
  let h := if 3 <=? R then iter_n 50 (fun x => md5 (firstn n x)) h else h in
  firstn n h.

(** Algorithm 3 (a)-(d): RC4 key from the owner password; (a) "if there is no owner
    password, use the user password instead" *)
Definition alg3_key_of (R : N) (n : nat) (pw : list N) : list N :=
  let h := md5 (pad32 pw) in
  let h := if 3 <=? R then md5_n 50 h else h in
  firstn n h.
Definition alg3_key (R : N) (n : nat) (owner_pw user_pw : list N) : list N :=
  alg3_key_of R n (match owner_pw with [] => user_pw | _ => owner_pw end).

(** steps (g)/(e) of Algorithms 3/5: 19 further RC4 passes with key xor i, i = 1..19 *)
Definition rc4_19 (key x : list N) : list N :=
  fold_left (fun acc i => rc4 (xor_const i key) acc) (nseq_from 1 19) x.

(** Algorithm 3: the O entry *)
Definition alg3_with (R : N) (key user_pw : list N) : list N :=
  let x := rc4 key (pad32 user_pw) in
  if 3 <=? R then rc4_19 key x else x.
Definition alg3 (R : N) (n : nat) (owner_pw user_pw : list N) : list N :=
  alg3_with R (alg3_key R n owner_pw user_pw) user_pw.

(** Algorithm 4 (R2) / Algorithm 5 (R3, R4): the U entry; Algorithm 5's 16 bytes of
    "arbitrary padding" are not part of the comparison — [alg45_sig] is the significant part *)
Definition alg45_sig (R : N) (n : nat) (pw O : list N) (P : N) (id : list N) (encmeta : bool) : list N :=
  let key := alg2 R n pw O P id encmeta in
  if 3 <=? R then rc4_19 key (rc4 key (md5 (pad_string ++ id)))
  else rc4 key pad_string.

Definition sig_len (R : N) : nat := if 3 <=? R then 16%nat else 32%nat.

(** Algorithm 6: authenticate the user password *)
Definition alg6 (R : N) (n : nat) (pw U O : list N) (P : N) (id : list N) (encmeta : bool) : bool :=
  bytes_eqb (alg45_sig R n pw O P id encmeta) (firstn (sig_len R) U).

(** Algorithm 7: authenticate the owner password.  (a) key as in Algorithm 3 (a)-(d);
    (b) decrypt O: one pass for R2, 20 passes with key xor i for i = 19..0 otherwise;
    (c) the result is the (padded) user password, checked with Algorithm 6. *)
Definition alg7_user_pad (R : N) (n : nat) (owner_pw O : list N) : list N :=
  let key := alg3_key_of R n owner_pw in
  if 3 <=? R then fold_left (fun acc i => rc4 (xor_const i key) acc) (rev (nseq 20)) O
  else rc4 key O.
Definition alg7 (R : N) (n : nat) (owner_pw U O : list N) (P : N) (id : list N) (encmeta : bool) : bool :=
  alg6 R n (alg7_user_pad R n owner_pw O) U O P id encmeta.

(** Algorithm 1 (RC4 / no "sAlT"): per-object key *)
Definition alg1 (key : list N) (num gen : N) : list N :=
  firstn (Nat.min (length key + 5) 16) (md5 (key ++ le_bytes 3 num ++ le_bytes 2 gen)).

(** * Revisions 5 and 6 *)

(** Algorithm 2.B (ISO 32000-2): the revision-6 hash.  [u] is the 48-byte U string for
    owner-password hashes and empty for user-password hashes. *)
Definition alg2b_round (pw u : list N) (K : list N) : list N * N :=
  let K1 := concat (repeat (pw ++ K ++ u) 64) in
  let E := cbc_encrypt_raw cipher (firstn 16 K) (firstn 16 (skipn 16 K)) K1 in
  let K' := match be_word (firstn 16 E) mod 3 with
            | 0 => sha256 E
            | 1 => sha384 E
            | _ => sha512 E
            end in
  (K', last E 0).

(** rounds 0..63 always; afterwards continue while the last byte of E exceeds (round number - 32);
    [i] is the number of the round about to run *)
Fixpoint alg2b_loop (fuel : nat) (pw u K : list N) (i : N) : list N :=
  match fuel with
  | O => K
  | S f =>
      let '(K', lastE) := alg2b_round pw u K in
      let i' := i + 1 in
      if (64 <=? i') && (lastE + 32 <=? i') then K' else alg2b_loop f pw u K' i'
  end.

Definition alg2b (pw salt u : list N) : list N :=
  firstn 32 (alg2b_loop 400 pw u (sha256 (pw ++ salt ++ u)) 0).

(** hash used by Algorithms 8-12: plain SHA-256 for revision 5, Algorithm 2.B for revision 6 *)
Definition hash56 (R : N) (pw salt u : list N) : list N :=
  if R =? 5 then sha256 (pw ++ salt ++ u) else alg2b pw salt u.

Definition zero_iv : list N := repeat 0 16.

(** Algorithm 8: U = hash(pw ‖ validation salt) ‖ validation salt ‖ key salt;
    UE = AES-256-CBC (no padding, zero IV) of the file key under hash(pw ‖ key salt) *)
Definition alg8_U (R : N) (pw vsalt ksalt : list N) : list N := hash56 R pw vsalt [] ++ vsalt ++ ksalt.
Definition alg8_UE (R : N) (pw ksalt fkey : list N) : list N :=
  cbc_encrypt_raw cipher (hash56 R pw ksalt []) zero_iv fkey.

(** Algorithm 9: O and OE, with the 48-byte U appended to the hash input *)
Definition alg9_O (R : N) (pw vsalt ksalt U : list N) : list N := hash56 R pw vsalt (firstn 48 U) ++ vsalt ++ ksalt.
Definition alg9_OE (R : N) (pw ksalt U fkey : list N) : list N :=
  cbc_encrypt_raw cipher (hash56 R pw ksalt (firstn 48 U)) zero_iv fkey.

(** Algorithm 11 / 12: password authentication *)
Definition alg11 (R : N) (pw U : list N) : bool :=
  bytes_eqb (hash56 R pw (slice 32 40 U) []) (firstn 32 U).
Definition alg12 (R : N) (pw O U : list N) : bool :=
  bytes_eqb (hash56 R pw (slice 32 40 O) (firstn 48 U)) (firstn 32 O).

(** Algorithm 2.A: recover the file key from UE (user) / OE (owner) *)
Definition alg2a_user (R : N) (pw U UE : list N) : list N :=
  cbc_decrypt_raw inv_cipher (hash56 R pw (slice 40 48 U) []) zero_iv UE.
Definition alg2a_owner (R : N) (pw O U OE : list N) : list N :=
  cbc_decrypt_raw inv_cipher (hash56 R pw (slice 40 48 O) (firstn 48 U)) zero_iv OE.

(** Algorithm 10: the Perms entry; [rnd] are the 4 arbitrary bytes *)
Definition perms_plain (P : N) (encmeta : bool) (rnd : list N) : list N :=
  le_bytes 4 P ++ [255; 255; 255; 255] ++ [if encmeta then 84 else 70] ++ [97; 100; 98] ++ firstn 4 rnd.
Definition alg10 (P : N) (encmeta : bool) (rnd fkey : list N) : list N :=
  ecb cipher fkey (perms_plain P encmeta rnd).

(** Algorithm 13: decrypt Perms, check "adb" (bytes 9-11) and that bytes 0-3 are P;
    byte 8 gives EncryptMetadata *)
Definition alg13_plain (perms fkey : list N) : list N := ecb inv_cipher fkey perms.
Definition alg13_valid (perms fkey : list N) (P : N) : bool :=
  let d := alg13_plain perms fkey in
  bytes_eqb (slice 9 12 d) [97; 100; 98] && bytes_eqb (firstn 4 d) (le_bytes 4 P).
