(** C23 — CBC mode (NIST SP 800-38A 6.2), ECB, and PKCS#7 padding (RFC 5652 6.3) over an
    arbitrary 16-byte block cipher given as functions [E], [D] : key -> block -> block. *)
From OxVerif Require Import Base.Util C23.Tab.

Definition blk := list N.
Definition cipherfn := list N -> blk -> blk.

(** PKCS#7: append n bytes of value n, n = 16 - (len mod 16)  (a full block when len mod 16 = 0) *)
Definition pad_len (x : list N) : nat := (16 - length x mod 16)%nat.
Definition pkcs7_pad (x : list N) : list N :=
  x ++ repeat (N.of_nat (pad_len x)) (pad_len x).

Definition pkcs7_unpad (y : list N) : option (list N) :=
  match rev y with
  | [] => None
  | p :: _ =>
      let n := N.to_nat p in
      if ((1 <=? n) && (n <=? 16) && (n <=? length y))%nat
         && forallb (N.eqb p) (skipn (length y - n) y)
      then Some (firstn (length y - n) y) else None
  end.

Fixpoint cbc_enc_blocks (E : cipherfn) (k : list N) (prev : blk) (bs : list blk) : list blk :=
  match bs with
  | [] => []
  | b :: r => let c := E k (xorl b prev) in c :: cbc_enc_blocks E k c r
  end.
Fixpoint cbc_dec_blocks (D : cipherfn) (k : list N) (prev : blk) (cs : list blk) : list blk :=
  match cs with
  | [] => []
  | c :: r => xorl (D k c) prev :: cbc_dec_blocks D k c r
  end.

Definition cbc_encrypt_raw (E : cipherfn) k iv x := concat (cbc_enc_blocks E k iv (chunk 16 x)).
Definition cbc_decrypt_raw (D : cipherfn) k iv y := concat (cbc_dec_blocks D k iv (chunk 16 y)).
Definition ecb (F : cipherfn) k x := concat (map (F k) (chunk 16 x)).

Definition cbc_encrypt (E : cipherfn) k iv x := cbc_encrypt_raw E k iv (pkcs7_pad x).
Definition cbc_decrypt (D : cipherfn) k iv y : option (list N) :=
  if (length y mod 16 =? 0)%nat then pkcs7_unpad (cbc_decrypt_raw D k iv y) else None.
