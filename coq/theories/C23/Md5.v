(** C23 — MD5 per RFC 1321 (words as N, additions mod 2^32). *)
From OxVerif Require Import Base.Util C23.Tab.

(** T[i] = floor(2^32 * abs(sin(i+1))), RFC 1321 section 3.4 *)
Definition md5_T : list N :=
 [3614090360; 3905402710; 606105819; 3250441966; 4118548399; 1200080426; 2821735955; 4249261313;
  1770035416; 2336552879; 4294925233; 2304563134; 1804603682; 4254626195; 2792965006; 1236535329;
  4129170786; 3225465664; 643717713; 3921069994; 3593408605; 38016083; 3634488961; 3889429448;
  568446438; 3275163606; 4107603335; 1163531501; 2850285829; 4243563512; 1735328473; 2368359562;
  4294588738; 2272392833; 1839030562; 4259657740; 2763975236; 1272893353; 4139469664; 3200236656;
  681279174; 3936430074; 3572445317; 76029189; 3654602809; 3873151461; 530742520; 3299628645;
  4096336452; 1126891415; 2878612391; 4237533241; 1700485571; 2399980690; 4293915773; 2240044497;
  1873313359; 4264355552; 2734768916; 1309151649; 4149444226; 3174756917; 718787259; 3951481745].

(** per-round shift amounts *)
Definition md5_S (i : N) : N :=
  let r := i / 16 in let c := i mod 4 in
  nth (N.to_nat (r * 4 + c)) [7; 12; 17; 22; 5; 9; 14; 20; 4; 11; 16; 23; 6; 10; 15; 21] 0.

(** message word index used at step i *)
Definition md5_K (i : N) : N :=
  match i / 16 with
  | 0 => i
  | 1 => (1 + 5 * i) mod 16
  | 2 => (5 + 3 * i) mod 16
  | _ => (7 * i) mod 16
  end.

Definition md5_F (x y z : N) := N.lor (N.land x y) (N.land (not32 x) z).
Definition md5_G (x y z : N) := N.lor (N.land x z) (N.land y (not32 z)).
Definition md5_H (x y z : N) := N.lxor (N.lxor x y) z.
Definition md5_I (x y z : N) := N.lxor y (N.lor x (not32 z)).

Definition md5_fn (i : N) : N -> N -> N -> N :=
  match i / 16 with 0 => md5_F | 1 => md5_G | 2 => md5_H | _ => md5_I end.

(** (step number, message index, shift, T) for the 64 steps, computed once *)
Definition md5_sched : list (N * N * N * N) :=
  Eval vm_compute in map (fun '(i, t) => (i, md5_K i, md5_S i, t)) (combine (nseq 64) md5_T).

(** one step  [abcd k s i] :  a = b + ((a + f(b,c,d) + X[k] + T[i]) <<< s), then rotate the roles *)
Definition md5_step (X : list N) (st : N * N * N * N) (e : N * N * N * N) : N * N * N * N :=
  let '(a, b, c, d) := st in
  let '(i, k, s, t) := e in
  let v := add32 (add32 (add32 a (md5_fn i b c d)) (nth (N.to_nat k) X 0)) t in
  (d, add32 b (rotl32 v s), b, c).

Definition md5_block (st : N * N * N * N) (blk : list N) : N * N * N * N :=
  let X := map le_word (chunk 4 blk) in
  let '(a, b, c, d) := st in
  let '(a', b', c', d') := fold_left (md5_step X) md5_sched st in
  (add32 a a', add32 b b', add32 c c', add32 d d').

(** padding: 0x80, zeros to 56 mod 64, 64-bit little-endian bit length *)
Definition md5_pad (msg : list N) : list N :=
  let n := N.of_nat (length msg) in
  let z := (55 + 64 - n mod 64) mod 64 in
  msg ++ [128] ++ repeat 0 (N.to_nat z) ++ le_bytes 8 (wrap64 (8 * n)).

Definition md5_init : N * N * N * N := (1732584193, 4023233417, 2562383102, 271733878).

Definition md5 (msg : list N) : list N :=
  let '(a, b, c, d) := fold_left md5_block (chunk 64 (md5_pad msg)) md5_init in
  le_bytes 4 a ++ le_bytes 4 b ++ le_bytes 4 c ++ le_bytes 4 d.

(** RFC 1321 appendix A.5 test suite *)
Example md5_empty : md5 [] = unhex "d41d8cd98f00b204e9800998ecf8427e".
Proof. vm_compute. reflexivity. Qed.
Example md5_a : md5 (bytes_of_string "a") = unhex "0cc175b9c0f1b6a831c399e269772661".
Proof. vm_compute. reflexivity. Qed.
Example md5_abc : md5 (bytes_of_string "abc") = unhex "900150983cd24fb0d6963f7d28e17f72".
Proof. vm_compute. reflexivity. Qed.
Example md5_msgdigest : md5 (bytes_of_string "message digest") = unhex "f96b697d7cb7938d525a2f31aaf161d0".
Proof. vm_compute. reflexivity. Qed.
Example md5_alpha : md5 (bytes_of_string "abcdefghijklmnopqrstuvwxyz") = unhex "c3fcd3d76192e4007dfb496cca67e13b".
Proof. vm_compute. reflexivity. Qed.
Example md5_alnum :
  md5 (bytes_of_string "ABCDEFGHIJKLMNOPQRSTUVWXYZabcdefghijklmnopqrstuvwxyz0123456789")
  = unhex "d174ab98d277d9f5a5611c2c9f419d9f".
Proof. vm_compute. reflexivity. Qed.
Example md5_digits :
  md5 (bytes_of_string "12345678901234567890123456789012345678901234567890123456789012345678901234567890")
  = unhex "57edf4a22be3c955ac49da2e2107b67a".
Proof. vm_compute. reflexivity. Qed.
