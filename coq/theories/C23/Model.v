(** C23 — code-shaped models of encryption/rc4.rs, aes.rs (the wrapper around the RustCrypto
    block ciphers, which are represented by the FIPS-197 functions of Aes.v) and the
    orchestration of standard_security.rs; plus the case checker of the correspondence. *)
From OxVerif Require Import Base.Util C23.Tab C23.Rc4 C23.Md5 C23.Sha2 C23.Aes C23.Cbc C23.SecHandler.

(** * rc4.rs *)
Record rc4_state := { st_s : vec; st_i : N; st_j : N }.

(** [Rc4::new]: identity array, then for i in 0..256 { j = (j + s[i] + key[i % key.len()]) % 256; swap }.
    An empty key makes [i % key.len()] a division by zero: panic = None. *)
Fixpoint m_ksa_loop (n : nat) (key : list N) (klen : N) (s : vec) (i j : N) : vec :=
  match n with
  | O => s
  | S n' =>
      let j' := m256 (j + vget s i + kget key (i mod klen)) in
      m_ksa_loop n' key klen (vswap s i j') (i + 1) j'
  end.

Definition rc4_new (key : list N) : option rc4_state :=
  match key with
  | [] => None
  | _ => Some {| st_s := m_ksa_loop 256 key (N.of_nat (length key)) vident 0 0; st_i := 0; st_j := 0 |}
  end.

(** [Rc4::process]: per byte  i = (i+1)%256; j = (j+s[i])%256; swap; out = byte ^ s[(s[i]+s[j])%256] *)
Fixpoint rc4_process (st : rc4_state) (data : list N) : rc4_state * list N :=
  match data with
  | [] => (st, [])
  | b :: r =>
      let i := m256 (st_i st + 1) in
      let j := m256 (st_j st + vget (st_s st) i) in
      let s := vswap (st_s st) i j in
      let k := vget s (m256 (vget s i + vget s j)) in
      let '(st', out) := rc4_process {| st_s := s; st_i := i; st_j := j |} r in
      (st', N.lxor b k :: out)
  end.

Definition m_rc4 (key data : list N) : option (list N) :=
  match rc4_new key with
  | None => None
  | Some st => Some (snd (rc4_process st data))
  end.

(** rc4_encrypt where the caller guarantees a key (keys here are never empty: key_length >= 5) *)
Definition m_rc4' (key data : list N) : list N :=
  match m_rc4 key data with Some x => x | None => [] end.

(** * aes.rs: length checks, then RustCrypto CBC + PKCS#7 *)
Definition key_ok (key : list N) : bool := ((length key =? 16) || (length key =? 32))%nat.

Definition m_encrypt_cbc (key iv data : list N) : option (list N) :=
  if negb (length iv =? 16)%nat then None
  else Some (cbc_encrypt cipher key iv data).
Definition m_decrypt_cbc (key iv data : list N) : option (list N) :=
  if negb (length iv =? 16)%nat then None
  else if negb (length data mod 16 =? 0)%nat then None
  else pkcs7_unpad (cbc_decrypt_raw inv_cipher key iv data).
Definition m_encrypt_cbc_raw (key iv data : list N) : option (list N) :=
  if negb (length iv =? 16)%nat then None
  else if negb (length data mod 16 =? 0)%nat then None
  else Some (cbc_encrypt_raw cipher key iv data).
Definition m_decrypt_cbc_raw (key iv data : list N) : option (list N) :=
  if negb (length iv =? 16)%nat then None
  else if negb (length data mod 16 =? 0)%nat then None
  else Some (cbc_decrypt_raw inv_cipher key iv data).
Definition m_ecb (F : cipherfn) (key data : list N) : option (list N) :=
  if negb (length data mod 16 =? 0)%nat then None else Some (ecb F key data).

(** * standard_security.rs, revisions 2-4 *)

(** [pad_password]: copy min(len,32) password bytes, fill the rest from PADDING *)
Definition m_pad_password (pw : list N) : list N :=
  let len := Nat.min (length pw) 32 in
  firstn len pw ++ firstn (32 - len)%nat pad_string.

Definition m_xor_key (i : N) (key : list N) : list N := map (fun b => N.lxor b i) key.

(** [compute_owner_hash] *)
Definition m_compute_owner_hash (R : N) (klen : nat) (owner user : list N) : list N :=
  let owner_pad := m_pad_password owner in
  let user_pad := m_pad_password user in
  let hash := md5 owner_pad in
  let hash := if 3 <=? R then iter_n 50 md5 hash else hash in
  let result := m_rc4' (firstn klen hash) user_pad in
  if 3 <=? R then
    fold_left (fun res i => m_rc4' (m_xor_key i (firstn klen hash)) res) (nseq_from 1 19) result
  else result.

(** [compute_key_from_padded] (the public entry points pass encrypt_metadata = true) *)
Definition m_compute_key (R : N) (klen : nat) (padded O : list N) (P : N) (id : option (list N))
           (encmeta : bool) : list N :=
  let data := padded ++ O ++ le_bytes 4 P ++ (match id with Some i => i | None => [] end)
              ++ (if encmeta then [] else [255; 255; 255; 255]) in
  let hash := md5 data in
  let hash := if 3 <=? R then iter_n 50 (fun h => md5 (firstn klen h)) hash else hash in
  firstn klen hash.

(** [compute_user_hash_from_padded] for R2 / R3-R4 *)
Definition m_user_hash_core (R : N) (key : list N) (id : option (list N)) : list N :=
  if R =? 2 then m_rc4' key pad_string
  else
    let hash := md5 (pad_string ++ (match id with Some i => i | None => [] end)) in
    let result := m_rc4' key hash in
    fold_left (fun res i => m_rc4' (m_xor_key i key) res) (nseq_from 1 19) result.

Definition m_compute_user_hash (R : N) (klen : nat) (user O : list N) (P : N) (id : option (list N)) : list N :=
  let key := m_compute_key R klen (m_pad_password user) O P id true in
  if R =? 2 then m_user_hash_core R key id else resize0 32 (m_user_hash_core R key id).

(** [validate_user_password] for R2-R4 *)
Definition m_validate_user (R : N) (klen : nat) (pw U O : list N) (P : N) (id : option (list N)) : bool :=
  let key := m_compute_key R klen (m_pad_password pw) O P id true in
  let enc := m_user_hash_core R key id in
  if R =? 2 then (32 <=? length U)%nat && bytes_eqb enc (firstn 32 U)
  else (16 <=? length U)%nat && bytes_eqb (firstn 16 enc) (firstn 16 U).

(** [compute_object_key] *)
Definition m_object_key (key : list N) (num gen : N) : list N :=
  let data := key ++ firstn 3 (le_bytes 4 num) ++ firstn 2 (le_bytes 2 gen) in
  firstn (Nat.min (length key + 5) 16) (md5 data).

(** * revisions 5 / 6 *)

(** [compute_hash_r6_algorithm_2b]; more than 127 password bytes is an error *)
Definition m_2b_round (pw u : list N) (k : list N) : list N * N :=
  let unit := pw ++ k ++ (match u with [] => [] | _ => firstn 48 u end) in
  let k1 := concat (repeat unit 64) in
  let k1 := k1 ++ repeat 0 ((16 - length k1 mod 16) mod 16)%nat in
  let k := k ++ repeat 0 (32 - length k)%nat in
  match m_encrypt_cbc_raw (firstn 16 k) (firstn 16 (skipn 16 k)) k1 with
  | None => ([], 0)
  | Some e =>
      let sel := (fold_left N.add (firstn 16 e) 0) mod 3 in
      ((if sel =? 0 then sha256 e else if sel =? 1 then sha384 e else sha512 e), last e 0)
  end.

Fixpoint m_2b_loop (fuel : nat) (pw u k : list N) (round : N) : list N :=
  match fuel with
  | O => k
  | S f =>
      let '(k', last_byte) := m_2b_round pw u k in
      let round := round + 1 in
      if (64 <=? round) && (last_byte <=? round - 32) then k'
      else if 2048 <=? round then k'
      else m_2b_loop f pw u k' round
  end.

Definition m_2b (pw salt u : list N) : option (list N) :=
  if (127 <? length pw)%nat then None
  else
    let input := pw ++ salt ++ (match u with [] => [] | _ => firstn 48 u end) in
    Some (firstn 32 (m_2b_loop 2048 pw u (sha256 input) 0)).

(** the R5 functions hash with SHA-256 directly, the R6 ones call Algorithm 2.B *)
Definition m_hash56 (R : N) (pw salt u : list N) : option (list N) :=
  if R =? 5 then Some (sha256 (pw ++ salt ++ u)) else m_2b pw salt u.

Definition obind {A B} (o : option A) (f : A -> option B) : option B :=
  match o with Some x => f x | None => None end.

Definition b2l (b : bool) : list N := [if b then 1 else 0].

(** [compute_rN_user_hash]: salts are random; they are read back from the produced entry *)
Definition m_r56_user_hash (R : N) (pw vsalt ksalt : list N) : option (list N) :=
  obind (m_hash56 R pw vsalt []) (fun h => Some (firstn 32 h ++ vsalt ++ ksalt)).
Definition m_r56_validate_user (R : N) (pw U : list N) : option (list N) :=
  if (length U <? 48)%nat then None
  else obind (m_hash56 R pw (slice 32 40 U) []) (fun h => Some (b2l (bytes_eqb (firstn 32 h) (firstn 32 U)))).
Definition m_r56_ue (R : N) (pw U fkey : list N) : option (list N) :=
  if negb (length U =? 48)%nat then None
  else if negb (length fkey =? 32)%nat then None
  else obind (m_hash56 R pw (slice 40 48 U) []) (fun h => m_encrypt_cbc_raw (firstn 32 h) zero_iv fkey).
Definition m_r56_recover_user (R : N) (pw U UE : list N) : option (list N) :=
  if negb (length UE =? 32)%nat then None
  else if (length U <? 48)%nat then None
  else obind (m_hash56 R pw (slice 40 48 U) []) (fun h => m_decrypt_cbc_raw (firstn 32 h) zero_iv UE).
Definition m_r56_owner_hash (R : N) (pw U vsalt ksalt : list N) : option (list N) :=
  if negb (length U =? 48)%nat then None
  else obind (m_hash56 R pw vsalt U) (fun h => Some (firstn 32 h ++ vsalt ++ ksalt)).
Definition m_r56_validate_owner (R : N) (pw O U : list N) : option (list N) :=
  if (length O <? 48)%nat then None
  else if (length U <? 48)%nat then None
  else obind (m_hash56 R pw (slice 32 40 O) (firstn 48 U))
             (fun h => Some (b2l (bytes_eqb (firstn 32 h) (firstn 32 O)))).
Definition m_r56_oe (R : N) (pw O U fkey : list N) : option (list N) :=
  if negb (length O =? 48)%nat then None
  else if negb (length U =? 48)%nat then None
  else if negb (length fkey =? 32)%nat then None
  else obind (m_hash56 R pw (slice 40 48 O) U)
             (fun h => obind (m_encrypt_cbc_raw (firstn 32 h) zero_iv fkey) (fun e => Some (firstn 32 e))).
Definition m_r56_recover_owner (R : N) (pw O U OE : list N) : option (list N) :=
  if (length O <? 48)%nat then None
  else if (length U <? 48)%nat then None
  else if negb (length OE =? 32)%nat then None
  else obind (m_hash56 R pw (slice 40 48 O) (firstn 48 U))
             (fun h => m_decrypt_cbc_raw (firstn 32 h) zero_iv OE).

(** [compute_perms_entry]; the 4 random bytes are passed in *)
Definition m_perms_entry (P : N) (encmeta : bool) (rnd fkey : list N) : option (list N) :=
  if negb (length fkey =? 32)%nat then None
  else
    let plain := le_bytes 4 (wrap32 P) ++ [255; 255; 255; 255] ++ [if encmeta then 84 else 70]
                 ++ [97; 100; 98] ++ firstn 4 rnd in
    m_ecb cipher fkey plain.
(** [validate_r6_perms] *)
Definition m_validate_perms (perms fkey : list N) (P : N) : option (list N) :=
  if negb (length perms =? 16)%nat then None
  else if negb (length fkey =? 32)%nat then None
  else obind (m_ecb inv_cipher fkey perms) (fun d =>
    if negb (bytes_eqb (slice 4 8 d) [255; 255; 255; 255]) then Some (b2l false)
    else if negb (bytes_eqb (slice 9 12 d) [97; 100; 98]) then Some (b2l false)
    else Some (b2l (bytes_eqb (le_bytes 4 (wrap32 P)) (firstn 4 d)))).
(** [extract_r6_encrypt_metadata]: Ok(None) = [], Ok(Some b) = [b] *)
Definition m_extract_meta (perms fkey : list N) : option (list N) :=
  if negb (length perms =? 16)%nat || negb (length fkey =? 32)%nat then Some []
  else match m_ecb inv_cipher fkey perms with
       | None => Some []
       | Some d =>
           if negb (bytes_eqb (slice 4 8 d) [255; 255; 255; 255]) || negb (bytes_eqb (slice 9 12 d) [97; 100; 98])
           then Some []
           else if nth 8 d 0 =? 84 then Some [1] else if nth 8 d 0 =? 70 then Some [0] else Some []
       end.

(** * Correspondence cases.
    A case is (operation, numeric parameters, byte-string arguments, implementation result);
    the result of the implementation is None for Err / panic, Some bytes otherwise
    (booleans as [[1]]/[[0]]).  Passwords of the string API travel as Unicode code points. *)
Definition case := (N * list N * list (list N) * option (list N))%type.

Definition arg (k : nat) (a : list (list N)) : list N := nth k a [].
Definition num (k : nat) (n : list N) : N := nth k n 0.
Definition knat (n : list N) : nat := N.to_nat (num 1 n).
Definition oid (has : N) (id : list N) : option (list N) := if has =? 0 then None else Some id.
Definition idb (has : N) (id : list N) : list N := if has =? 0 then [] else id.
Definition out_or_nil (o : option (list N)) : list N := match o with Some x => x | None => [] end.
Definition res_eqb (a b : option (list N)) : bool := option_eqb bytes_eqb a b.

(** what the model predicts; [out] is consulted only for values the implementation draws at random *)
Definition model_res (c : case) : option (list N) :=
  let '(op, n, a, out) := c in
  let o := out_or_nil out in
  let R := num 0 n in
  match op with
  | 1 => m_rc4 (arg 0 a) (arg 1 a)
  | 2 => match rc4_new (arg 0 a) with
         | None => None
         | Some st => let '(st1, o1) := rc4_process st (arg 1 a) in Some (o1 ++ snd (rc4_process st1 (arg 2 a)))
         end
  | 10 => m_encrypt_cbc (arg 0 a) (arg 1 a) (arg 2 a)
  | 11 => m_decrypt_cbc (arg 0 a) (arg 1 a) (arg 2 a)
  | 12 => m_encrypt_cbc_raw (arg 0 a) (arg 1 a) (arg 2 a)
  | 13 => m_decrypt_cbc_raw (arg 0 a) (arg 1 a) (arg 2 a)
  | 14 => m_ecb cipher (arg 0 a) (arg 1 a)
  | 15 => m_ecb inv_cipher (arg 0 a) (arg 1 a)
  | 20 => Some (m_compute_owner_hash R (knat n) (utf8 (arg 0 a)) (utf8 (arg 1 a)))
  | 21 => Some (m_compute_key R (knat n) (m_pad_password (utf8 (arg 0 a))) (arg 1 a) (num 2 n) (oid (num 3 n) (arg 2 a)) true)
  | 22 => Some (m_compute_user_hash R (knat n) (utf8 (arg 0 a)) (arg 1 a) (num 2 n) (oid (num 3 n) (arg 2 a)))
  | 23 => Some (b2l (m_validate_user R (knat n) (utf8 (arg 0 a)) (arg 1 a) (arg 2 a) (num 2 n) (oid (num 3 n) (arg 3 a))))
  | 24 => out                                   (* validate_owner_password R2-R4: not modelled *)
  | 25 => Some (m_object_key (arg 0 a) (num 0 n) (num 1 n))
  | 30 => m_r56_user_hash R (utf8 (arg 0 a)) (slice 32 40 o) (slice 40 48 o)
  | 31 => m_r56_validate_user R (utf8 (arg 0 a)) (arg 1 a)
  | 32 => m_r56_ue R (utf8 (arg 0 a)) (arg 1 a) (arg 2 a)
  | 33 => m_r56_recover_user R (utf8 (arg 0 a)) (arg 1 a) (arg 2 a)
  | 34 => m_r56_owner_hash R (utf8 (arg 0 a)) (arg 1 a) (slice 32 40 o) (slice 40 48 o)
  | 35 => m_r56_validate_owner R (utf8 (arg 0 a)) (arg 1 a) (arg 2 a)
  | 36 => m_r56_oe R (utf8 (arg 0 a)) (arg 1 a) (arg 2 a) (arg 3 a)
  | 37 => m_r56_recover_owner R (utf8 (arg 0 a)) (arg 1 a) (arg 2 a) (arg 3 a)
  | 40 => m_2b (arg 0 a) (arg 1 a) (arg 2 a)
  | 41 => m_perms_entry (num 1 n) (negb (num 2 n =? 0)) (skipn 12 (ecb inv_cipher (arg 0 a) o)) (arg 0 a)
  | 42 => m_validate_perms (arg 0 a) (arg 1 a) (num 0 n)
  | 43 => m_extract_meta (arg 0 a) (arg 1 a)
  | _ => out
  end.

(** The property's predicate, evaluated by the SPECS on the implementation's output.
    Returns (main, alt): [main] is the standard's requirement; [alt] is the same requirement with
    the password bytes / owner fallback taken the library's way (used only to keep the two known
    deviations from hiding any other difference).  Inputs outside a function's specified
    domain (wrong lengths: the implementation must refuse or may do anything) yield true. *)
Definition is_ascii (cps : list N) : bool := forallb (fun c => c <? 128) cps.

Definition with_pdfdoc (cps : list N) (f : list N -> bool) : bool :=
  match pdfdoc_encode cps with Some b => f b | None => true end.

Definition spec_ok (c : case) : bool * bool :=
  let '(op, n, a, out) := c in
  let o := out_or_nil out in
  let R := num 0 n in
  let same b := (b, b) in
  match op with
  | 1 => same (match arg 0 a with [] => true | k => res_eqb out (Some (rc4 k (arg 1 a))) end)
  | 2 => same (match arg 0 a with [] => true | k => res_eqb out (Some (rc4 k (arg 1 a ++ arg 2 a))) end)
  | 10 => same (if key_ok (arg 0 a) && (length (arg 1 a) =? 16)%nat
                then res_eqb out (Some (cbc_encrypt cipher (arg 0 a) (arg 1 a) (arg 2 a))) else true)
  | 11 => same (if key_ok (arg 0 a) && (length (arg 1 a) =? 16)%nat
                then res_eqb out (cbc_decrypt inv_cipher (arg 0 a) (arg 1 a) (arg 2 a)) else true)
  | 12 => same (if key_ok (arg 0 a) && (length (arg 1 a) =? 16)%nat && (length (arg 2 a) mod 16 =? 0)%nat
                then res_eqb out (Some (cbc_encrypt_raw cipher (arg 0 a) (arg 1 a) (arg 2 a))) else true)
  | 13 => same (if key_ok (arg 0 a) && (length (arg 1 a) =? 16)%nat && (length (arg 2 a) mod 16 =? 0)%nat
                then res_eqb out (Some (cbc_decrypt_raw inv_cipher (arg 0 a) (arg 1 a) (arg 2 a))) else true)
  | 14 => same (if key_ok (arg 0 a) && (length (arg 1 a) mod 16 =? 0)%nat
                then res_eqb out (Some (ecb cipher (arg 0 a) (arg 1 a))) else true)
  | 15 => same (if key_ok (arg 0 a) && (length (arg 1 a) mod 16 =? 0)%nat
                then res_eqb out (Some (ecb inv_cipher (arg 0 a) (arg 1 a))) else true)
  | 20 => (with_pdfdoc (arg 0 a) (fun ow => with_pdfdoc (arg 1 a) (fun us =>
             bytes_eqb o (alg3 R (knat n) ow us))),
           (* library's reading: UTF-8 bytes, empty owner password padded as such *)
           let ow := utf8 (arg 0 a) in let us := utf8 (arg 1 a) in
           bytes_eqb o (alg3_with R (alg3_key_of R (knat n) ow) us))
  | 21 => (with_pdfdoc (arg 0 a) (fun pw => bytes_eqb o (alg2 R (knat n) pw (arg 1 a) (num 2 n) (idb (num 3 n) (arg 2 a)) true)),
           bytes_eqb o (alg2 R (knat n) (utf8 (arg 0 a)) (arg 1 a) (num 2 n) (idb (num 3 n) (arg 2 a)) true))
  | 22 => let chk pw := bytes_eqb (firstn (sig_len R) o) (alg45_sig R (knat n) pw (arg 1 a) (num 2 n) (idb (num 3 n) (arg 2 a)) true)
                        && (length o =? 32)%nat in
          (with_pdfdoc (arg 0 a) chk, chk (utf8 (arg 0 a)))
  | 23 => let chk pw := res_eqb out (Some (b2l (alg6 R (knat n) pw (arg 1 a) (arg 2 a) (num 2 n) (idb (num 3 n) (arg 3 a)) true))) in
          if (32 <=? length (arg 1 a))%nat then (with_pdfdoc (arg 0 a) chk, chk (utf8 (arg 0 a))) else (true, true)
  | 24 => let chk pw := res_eqb out (Some (b2l (alg7 R (knat n) pw (arg 2 a) (arg 1 a) (num 2 n) (idb (num 3 n) (arg 3 a)) true))) in
          if ((32 <=? length (arg 1 a)) && (32 <=? length (arg 2 a)))%nat
          then (with_pdfdoc (arg 0 a) chk, chk (utf8 (arg 0 a))) else (true, true)
  | 25 => same (bytes_eqb o (alg1 (arg 0 a) (num 0 n) (num 1 n)))
  | 30 => same (bytes_eqb o (alg8_U R (utf8 (arg 0 a)) (slice 32 40 o) (slice 40 48 o)) && (length o =? 48)%nat)
  | 31 => same (if (length (arg 1 a) =? 48)%nat then res_eqb out (Some (b2l (alg11 R (utf8 (arg 0 a)) (arg 1 a)))) else true)
  | 32 => same (if ((length (arg 1 a) =? 48) && (length (arg 2 a) =? 32))%nat
                then res_eqb out (Some (alg8_UE R (utf8 (arg 0 a)) (slice 40 48 (arg 1 a)) (arg 2 a))) else true)
  | 33 => same (if ((length (arg 1 a) =? 48) && (length (arg 2 a) =? 32))%nat
                then res_eqb out (Some (alg2a_user R (utf8 (arg 0 a)) (arg 1 a) (arg 2 a))) else true)
  | 34 => same (if (length (arg 1 a) =? 48)%nat
                then bytes_eqb o (alg9_O R (utf8 (arg 0 a)) (slice 32 40 o) (slice 40 48 o) (arg 1 a)) && (length o =? 48)%nat
                else true)
  | 35 => same (if ((length (arg 1 a) =? 48) && (length (arg 2 a) =? 48))%nat
                then res_eqb out (Some (b2l (alg12 R (utf8 (arg 0 a)) (arg 1 a) (arg 2 a)))) else true)
  | 36 => same (if ((length (arg 1 a) =? 48) && (length (arg 2 a) =? 48) && (length (arg 3 a) =? 32))%nat
                then res_eqb out (Some (alg9_OE R (utf8 (arg 0 a)) (slice 40 48 (arg 1 a)) (arg 2 a) (arg 3 a))) else true)
  | 37 => same (if ((length (arg 1 a) =? 48) && (length (arg 2 a) =? 48) && (length (arg 3 a) =? 32))%nat
                then res_eqb out (Some (alg2a_owner R (utf8 (arg 0 a)) (arg 1 a) (arg 2 a) (arg 3 a))) else true)
  | 40 => same (if ((length (arg 0 a) <=? 127) && ((length (arg 2 a) =? 0) || (length (arg 2 a) =? 48)))%nat
                then res_eqb out (Some (alg2b (arg 0 a) (arg 1 a) (arg 2 a))) else true)
  | 41 => same (if ((length (arg 0 a) =? 32)%nat && (num 1 n <? 2 ^ 32))
                then bytes_eqb o (alg10 (num 1 n) (negb (num 2 n =? 0)) (skipn 12 (ecb inv_cipher (arg 0 a) o)) (arg 0 a))
                     && (length o =? 16)%nat
                else true)
  | 42 => same (if ((length (arg 0 a) =? 16) && (length (arg 1 a) =? 32))%nat && (num 0 n <? 2 ^ 32)
                then
                  if alg13_valid (arg 0 a) (arg 1 a) (num 0 n) then
                    (* the code additionally insists on the FF FF FF FF filler of Algorithm 10 *)
                    if bytes_eqb (slice 4 8 (alg13_plain (arg 0 a) (arg 1 a))) [255; 255; 255; 255]
                    then res_eqb out (Some (b2l true)) else true
                  else res_eqb out (Some (b2l false))
                else true)
  | 43 => same (if ((length (arg 0 a) =? 16) && (length (arg 1 a) =? 32))%nat
                then
                  let d := alg13_plain (arg 0 a) (arg 1 a) in
                  if bytes_eqb (slice 9 12 d) [97; 100; 98] && bytes_eqb (slice 4 8 d) [255; 255; 255; 255] then
                    if nth 8 d 0 =? 84 then res_eqb out (Some [1])
                    else if nth 8 d 0 =? 70 then res_eqb out (Some [0]) else res_eqb out (Some [])
                  else if bytes_eqb (slice 9 12 d) [97; 100; 98] then true
                  else res_eqb out (Some [])
                else true)
  | _ => same false
  end.

(** Known deviation of [validate_owner_password] (R2-R4): instead of Algorithm 7 (c) the code
    turns the decrypted O into a password STRING (bytes up to the first 0x28, or all 32 bytes
    when they are exactly the padding string; lossy UTF-8), pads it again and compares the
    recomputed O.  That loses information — hence rejects the right owner password — exactly
    when re-padding the stripped bytes does not give back the decrypted 32 bytes (user
    password empty, or containing 0x28 in its first 32 bytes) or when they are not ASCII. *)
Fixpoint take_until (x : N) (l : list N) : list N :=
  match l with [] => [] | b :: r => if b =? x then [] else b :: take_until x r end.
Definition owner_auth_lossy (upad : list N) : bool :=
  let stripped := if bytes_eqb upad pad_string then upad else take_until 40 upad in
  negb (is_ascii stripped) || negb (bytes_eqb (pad32 stripped) upad).

Definition owner_auth_known (c : case) : bool :=
  let '(op, n, a, out) := c in
  (* nested ifs: vm_compute evaluates both arguments of && *)
  if op =? 24 then
    if ((32 <=? length (arg 1 a)) && (32 <=? length (arg 2 a)))%nat && res_eqb out (Some [0]) then
      if alg7 (num 0 n) (knat n) (utf8 (arg 0 a)) (arg 2 a) (arg 1 a) (num 2 n) (idb (num 3 n) (arg 3 a)) true
      then owner_auth_lossy (alg7_user_pad (num 0 n) (knat n) (utf8 (arg 0 a)) (firstn 32 (arg 1 a)))
      else false
    else false
  else false.

(** failure code: bit 1 model differs from the implementation, bit 2 the standard's algorithm
    differs from the implementation, bit 4 (value 4) it also differs when read the library's way;
    8 = the owner-authentication deviation described above (and nothing else) *)
Definition case_code (c : case) : N :=
  if owner_auth_known c then 8 else
  let '(_, _, _, out) := c in
  let '(main, alt) := spec_ok c in
  code_of (res_eqb (model_res c) out) main + (if alt then 0 else 4).
