(** C23 — compute_perms_entry / validate_r6_perms / extract_r6_encrypt_metadata (models) against
    Algorithms 10 and 13 of ISO 32000-2, and the round trip at the model level with FIPS-197 AES. *)
From OxVerif Require Import Base.Util C23.Tab C23.Aes C23.Cbc C23.SecHandler C23.Model C23.Proofs C23.AesInv C23.AesCbc.
Require Import Lia.
Open Scope N_scope.

Lemma le_bytes_len4 n : forall w, length (le_bytes n w) = n.
Proof. induction n; intro w; cbn [le_bytes length]; auto. Qed.

Lemma perms_plain_length P em rnd : (4 <= length rnd)%nat -> length (perms_plain P em rnd) = 16%nat.
Proof.
  intro H. unfold perms_plain. rewrite !app_length, le_bytes_len4, firstn_length. cbn [length]. lia.
Qed.

Lemma bytes_eqb_sym a b : bytes_eqb a b = bytes_eqb b a.
Proof. apply Bool.eq_true_iff_eq. rewrite !bytes_eqb_eq. split; intro H; symmetry; exact H. Qed.

(** compute_perms_entry = Algorithm 10 on the permission word reduced to 32 bits (the code takes a
    u32); fewer than 4 random bytes cannot happen in the code (fixed array) *)
Theorem perms_entry_model_eq_spec_thm P em rnd fkey :
  length fkey = 32%nat -> (4 <= length rnd)%nat ->
  m_perms_entry P em rnd fkey = Some (alg10 (wrap32 P) em rnd fkey).
Proof.
  intros Hk Hr. unfold m_perms_entry, alg10. rewrite Hk. cbn [Nat.eqb negb]. cbv zeta.
  change (le_bytes 4 (wrap32 P) ++ [255; 255; 255; 255] ++ [if em then 84 else 70] ++ [97; 100; 98] ++ firstn 4 rnd)
    with (perms_plain (wrap32 P) em rnd).
  unfold m_ecb. rewrite perms_plain_length by exact Hr. reflexivity.
Qed.

(** validate_r6_perms = Algorithm 13 (decrypt, "adb", P) plus the check of the FF FF FF FF filler
    that Algorithm 10 writes *)
Theorem validate_perms_model_eq_spec_thm perms fkey P :
  length perms = 16%nat -> length fkey = 32%nat ->
  m_validate_perms perms fkey P
  = Some (b2l (bytes_eqb (slice 4 8 (alg13_plain perms fkey)) [255; 255; 255; 255]
               && alg13_valid perms fkey (wrap32 P))).
Proof.
  intros Hp Hk. unfold m_validate_perms, alg13_valid. rewrite Hp, Hk. cbn [Nat.eqb negb].
  unfold m_ecb. rewrite Hp. cbn [Nat.modulo Nat.divmod fst snd Nat.sub Nat.eqb negb obind].
  fold (alg13_plain perms fkey). cbv zeta.
  rewrite (bytes_eqb_sym (le_bytes 4 (wrap32 P))).
  destruct (bytes_eqb (slice 4 8 (alg13_plain perms fkey)) [255; 255; 255; 255]); [|reflexivity].
  destruct (bytes_eqb (slice 9 12 (alg13_plain perms fkey)) [97; 100; 98]); reflexivity.
Qed.

(** extract_r6_encrypt_metadata reads byte 8 of the Algorithm 13 plaintext once both markers match *)
Theorem extract_meta_model_eq_spec_thm perms fkey :
  length perms = 16%nat -> length fkey = 32%nat ->
  m_extract_meta perms fkey
  = let d := alg13_plain perms fkey in
    if bytes_eqb (slice 4 8 d) [255; 255; 255; 255] && bytes_eqb (slice 9 12 d) [97; 100; 98]
    then (if nth 8 d 0 =? 84 then Some [1] else if nth 8 d 0 =? 70 then Some [0] else Some [])
    else Some [].
Proof.
  intros Hp Hk. unfold m_extract_meta. rewrite Hp, Hk. cbn [Nat.eqb negb orb].
  unfold m_ecb. rewrite Hp. cbn [Nat.modulo Nat.divmod fst snd Nat.sub Nat.eqb negb].
  fold (alg13_plain perms fkey). cbv zeta.
  destruct (bytes_eqb (slice 4 8 (alg13_plain perms fkey)) [255; 255; 255; 255]); [|reflexivity].
  destruct (bytes_eqb (slice 9 12 (alg13_plain perms fkey)) [97; 100; 98]); reflexivity.
Qed.

Lemma perms_plain_wf P em rnd : length rnd = 4%nat -> bytes_ok rnd = true -> wf (perms_plain P em rnd).
Proof.
  intros Hr Hb. destruct rnd as [|r0 [|r1 [|r2 [|r3 [|]]]]]; try discriminate.
  split; [reflexivity|]. unfold perms_plain, bytes_ok in *. rewrite !forallb_app.
  fold (bytes_ok (le_bytes 4 P)). rewrite le_bytes_ok. cbn [firstn]. rewrite Hb.
  destruct em; reflexivity.
Qed.

(** (4) the round trip at the model level: what compute_perms_entry writes is accepted by
    validate_r6_perms for the same P and key, and extract_r6_encrypt_metadata returns the flag *)
Theorem perms_model_roundtrip_thm fkey P em rnd :
  length fkey = 32%nat -> bytes_ok fkey = true -> length rnd = 4%nat -> bytes_ok rnd = true ->
  exists perms, m_perms_entry P em rnd fkey = Some perms /\ length perms = 16%nat
    /\ alg13_plain perms fkey = perms_plain (wrap32 P) em rnd
    /\ m_validate_perms perms fkey P = Some [1]
    /\ m_extract_meta perms fkey = Some [if em then 1 else 0].
Proof.
  intros Hk Hkb Hr Hb.
  assert (Hkey : AesInv.key_ok fkey) by (split; [right; exact Hk | exact Hkb]).
  exists (alg10 (wrap32 P) em rnd fkey).
  pose proof (perms_plain_wf (wrap32 P) em rnd Hr Hb) as Hw.
  assert (Hlen : length (alg10 (wrap32 P) em rnd fkey) = 16%nat).
  { unfold alg10. rewrite (ecb_single cipher) by (exact (proj1 Hw)).
    exact (proj1 (cipher_wf fkey _ Hkey Hw)). }
  pose proof (aes_perms_roundtrip fkey (wrap32 P) em rnd Hkey Hr Hb) as RT.
  split; [apply perms_entry_model_eq_spec_thm; [exact Hk | lia]|].
  split; [exact Hlen|]. split; [exact RT|].
  destruct rnd as [|r0 [|r1 [|r2 [|r3 [|]]]]]; try discriminate.
  split.
  - rewrite validate_perms_model_eq_spec_thm by assumption. unfold alg13_valid. rewrite RT.
    replace (bytes_eqb (slice 4 8 (perms_plain (wrap32 P) em [r0; r1; r2; r3])) [255; 255; 255; 255]) with true
      by (symmetry; apply bytes_eqb_eq; reflexivity).
    replace (bytes_eqb (slice 9 12 (perms_plain (wrap32 P) em [r0; r1; r2; r3])) [97; 100; 98]) with true
      by (symmetry; apply bytes_eqb_eq; reflexivity).
    replace (bytes_eqb (firstn 4 (perms_plain (wrap32 P) em [r0; r1; r2; r3])) (le_bytes 4 (wrap32 P))) with true
      by (symmetry; apply bytes_eqb_eq; reflexivity).
    reflexivity.
  - rewrite extract_meta_model_eq_spec_thm by assumption. cbv zeta. rewrite RT.
    replace (bytes_eqb (slice 4 8 (perms_plain (wrap32 P) em [r0; r1; r2; r3])) [255; 255; 255; 255]) with true
      by (symmetry; apply bytes_eqb_eq; reflexivity).
    replace (bytes_eqb (slice 9 12 (perms_plain (wrap32 P) em [r0; r1; r2; r3])) [97; 100; 98]) with true
      by (symmetry; apply bytes_eqb_eq; reflexivity).
    destruct em; reflexivity.
Qed.

(** a different permission word is rejected: [le_bytes 4] is injective on 32-bit words *)
Lemma le_word_le_bytes : forall n w, le_word (le_bytes n w) = N.land w (N.ones (8 * N.of_nat n)).
Proof.
  induction n as [|n IH]; intro w.
  - change (N.ones (8 * N.of_nat 0)) with 0. rewrite N.land_0_r. reflexivity.
  - cbn [le_bytes le_word]. rewrite IH. apply N.bits_inj. intro i.
    rewrite N.lor_spec, !N.land_spec. unfold m8. change 255 with (N.ones 8).
    destruct (N.lt_ge_cases i 8) as [Hi|Hi].
    + rewrite N.shiftl_spec_low by exact Hi. rewrite orb_false_r.
      rewrite !N.ones_spec_low by lia. reflexivity.
    + rewrite N.shiftl_spec_high' by exact Hi. rewrite N.land_spec, N.shiftr_spec'.
      replace (i - 8 + 8) with i by lia.
      rewrite (N.ones_spec_high 8 i) by exact Hi. rewrite andb_false_r. cbn [orb].
      destruct (N.lt_ge_cases (i - 8) (8 * N.of_nat n)) as [Hj|Hj].
      * rewrite !N.ones_spec_low by lia. reflexivity.
      * rewrite !N.ones_spec_high by lia. reflexivity.
Qed.

Lemma le_bytes4_inj a b : le_bytes 4 (wrap32 a) = le_bytes 4 (wrap32 b) -> wrap32 a = wrap32 b.
Proof.
  intro H. apply (f_equal le_word) in H. rewrite !le_word_le_bytes in H.
  change (N.ones (8 * N.of_nat 4)) with m32 in H. fold (wrap32 (wrap32 a)) in H. fold (wrap32 (wrap32 b)) in H.
  rewrite !wrap32_mod in *. rewrite !N.mod_mod in H by discriminate. exact H.
Qed.

Theorem perms_model_rejects_other_P_thm fkey P P' em rnd :
  length fkey = 32%nat -> bytes_ok fkey = true -> length rnd = 4%nat -> bytes_ok rnd = true ->
  wrap32 P' <> wrap32 P ->
  forall perms, m_perms_entry P em rnd fkey = Some perms -> m_validate_perms perms fkey P' = Some [0].
Proof.
  intros Hk Hkb Hr Hb Hne perms Hp.
  destruct (perms_model_roundtrip_thm fkey P em rnd Hk Hkb Hr Hb) as (p & Hp' & Hlen & RT & _).
  rewrite Hp in Hp'. injection Hp' as <-.
  rewrite validate_perms_model_eq_spec_thm by assumption. unfold alg13_valid. rewrite RT.
  destruct rnd as [|r0 [|r1 [|r2 [|r3 [|]]]]]; try discriminate.
  replace (bytes_eqb (firstn 4 (perms_plain (wrap32 P) em [r0; r1; r2; r3])) (le_bytes 4 (wrap32 P'))) with false.
  - rewrite !andb_false_r. reflexivity.
  - symmetry. destruct (bytes_eqb _ _) eqn:E; [|reflexivity].
    apply bytes_eqb_eq in E. exfalso. apply Hne. symmetry. apply le_bytes4_inj.
    rewrite <- E. reflexivity.
Qed.

Example perms_model_roundtrip_example :
  let k := map (fun j => (j * 7 + 3) mod 256) (nseq 32) in
  match m_perms_entry 4294963392 true [1; 2; 3; 4] k with
  | Some p => m_validate_perms p k 4294963392 = Some [1] /\ m_validate_perms p k 4294963396 = Some [0]
              /\ m_extract_meta p k = Some [1]
  | None => False
  end.
Proof. vm_compute. repeat split; reflexivity. Qed.
