(** C23 — SHA-256 / SHA-384 / SHA-512 per FIPS 180-4 (words as N, additions mod 2^32 / 2^64). *)
From OxVerif Require Import Base.Util C23.Tab.

Definition primes80 : list N :=
 [2; 3; 5; 7; 11; 13; 17; 19; 23; 29; 31; 37; 41; 43; 47; 53; 59; 61; 67; 71;
  73; 79; 83; 89; 97; 101; 103; 107; 109; 113; 127; 131; 137; 139; 149; 151; 157; 163; 167; 173;
  179; 181; 191; 193; 197; 199; 211; 223; 227; 229; 233; 239; 241; 251; 257; 263; 269; 271; 277; 281;
  283; 293; 307; 311; 313; 317; 331; 337; 347; 349; 353; 359; 367; 373; 379; 383; 389; 397; 401; 409].

Definition K256 : list N :=
 [1116352408; 1899447441; 3049323471; 3921009573; 961987163; 1508970993; 2453635748; 2870763221;
  3624381080; 310598401; 607225278; 1426881987; 1925078388; 2162078206; 2614888103; 3248222580;
  3835390401; 4022224774; 264347078; 604807628; 770255983; 1249150122; 1555081692; 1996064986;
  2554220882; 2821834349; 2952996808; 3210313671; 3336571891; 3584528711; 113926993; 338241895;
  666307205; 773529912; 1294757372; 1396182291; 1695183700; 1986661051; 2177026350; 2456956037;
  2730485921; 2820302411; 3259730800; 3345764771; 3516065817; 3600352804; 4094571909; 275423344;
  430227734; 506948616; 659060556; 883997877; 958139571; 1322822218; 1537002063; 1747873779;
  1955562222; 2024104815; 2227730452; 2361852424; 2428436474; 2756734187; 3204031479; 3329325298].
Definition H256 : list N :=
 [1779033703; 3144134277; 1013904242; 2773480762; 1359893119; 2600822924; 528734635; 1541459225].
Definition K512 : list N :=
 [4794697086780616226; 8158064640168781261; 13096744586834688815; 16840607885511220156;
  4131703408338449720; 6480981068601479193; 10538285296894168987; 12329834152419229976;
  15566598209576043074; 1334009975649890238; 2608012711638119052; 6128411473006802146;
  8268148722764581231; 9286055187155687089; 11230858885718282805; 13951009754708518548;
  16472876342353939154; 17275323862435702243; 1135362057144423861; 2597628984639134821;
  3308224258029322869; 5365058923640841347; 6679025012923562964; 8573033837759648693;
  10970295158949994411; 12119686244451234320; 12683024718118986047; 13788192230050041572;
  14330467153632333762; 15395433587784984357; 489312712824947311; 1452737877330783856;
  2861767655752347644; 3322285676063803686; 5560940570517711597; 5996557281743188959;
  7280758554555802590; 8532644243296465576; 9350256976987008742; 10552545826968843579;
  11727347734174303076; 12113106623233404929; 14000437183269869457; 14369950271660146224;
  15101387698204529176; 15463397548674623760; 17586052441742319658; 1182934255886127544;
  1847814050463011016; 2177327727835720531; 2830643537854262169; 3796741975233480872;
  4115178125766777443; 5681478168544905931; 6601373596472566643; 7507060721942968483;
  8399075790359081724; 8693463985226723168; 9568029438360202098; 10144078919501101548;
  10430055236837252648; 11840083180663258601; 13761210420658862357; 14299343276471374635;
  14566680578165727644; 15097957966210449927; 16922976911328602910; 17689382322260857208;
  500013540394364858; 748580250866718886; 1242879168328830382; 1977374033974150939;
  2944078676154940804; 3659926193048069267; 4368137639120453308; 4836135668995329356;
  5532061633213252278; 6448918945643986474; 6902733635092675308; 7801388544844847127].
Definition H512 : list N :=
 [7640891576956012808; 13503953896175478587; 4354685564936845355; 11912009170470909681;
  5840696475078001361; 11170449401992604703; 2270897969802886507; 6620516959819538809].
Definition H384 : list N :=
 [14680500436340154072; 7105036623409894663; 10473403895298186519; 1526699215303891257;
  7436329637833083697; 10282925794625328401; 15784041429090275239; 5167115440072839076].

(** The constants are what FIPS 180-4 says they are: the first [bits] bits of the fractional
    part of the k-th root of the n-th prime:  c + i*2^bits = floor(root_k(p) * 2^bits), i.e.
    exists integer part i with (i*2^bits + c)^k <= p * 2^(k*bits) < (i*2^bits + c + 1)^k. *)
Definition frac_root_ok (k bits : N) (p c : N) : bool :=
  let ok i := let v := i * 2 ^ bits + c in
              (v ^ k <=? p * 2 ^ (k * bits)) && (p * 2 ^ (k * bits) <? (v + 1) ^ k) in
  (c <? 2 ^ bits) && existsb ok (nseq 32).
Definition consts_ok (k bits : N) (ps cs : list N) : bool :=
  (length ps =? length cs)%nat && forallb (fun '(p, c) => frac_root_ok k bits p c) (combine ps cs).

Example K256_def : consts_ok 3 32 (firstn 64 primes80) K256 = true. Proof. vm_compute. reflexivity. Qed.
Example H256_def : consts_ok 2 32 (firstn 8 primes80) H256 = true. Proof. vm_compute. reflexivity. Qed.
Example K512_def : consts_ok 3 64 primes80 K512 = true. Proof. vm_compute. reflexivity. Qed.
Example H512_def : consts_ok 2 64 (firstn 8 primes80) H512 = true. Proof. vm_compute. reflexivity. Qed.
Example H384_def : consts_ok 2 64 (firstn 8 (skipn 8 primes80)) H384 = true. Proof. vm_compute. reflexivity. Qed.

Section Core.
  (** word size in bits, mask 2^w - 1, bytes per word, rotation amounts, round constants *)
  Variable (w mask : N) (wb : nat).
  Variable (S0a S0b S0c S1a S1b S1c s0a s0b s0c s1a s1b s1c : N).

  Definition wadd (a b : N) : N := N.land (a + b) mask.
  Definition rotr (x n : N) : N := N.land (N.lor (N.shiftr x n) (N.shiftl x (w - n))) mask.
  Definition Ch (x y z : N) := N.lxor (N.land x y) (N.land (N.lxor x mask) z).
  Definition Maj (x y z : N) := N.lxor (N.lxor (N.land x y) (N.land x z)) (N.land y z).
  Definition Sig0 x := N.lxor (N.lxor (rotr x S0a) (rotr x S0b)) (rotr x S0c).
  Definition Sig1 x := N.lxor (N.lxor (rotr x S1a) (rotr x S1b)) (rotr x S1c).
  Definition sig0 x := N.lxor (N.lxor (rotr x s0a) (rotr x s0b)) (N.shiftr x s0c).
  Definition sig1 x := N.lxor (N.lxor (rotr x s1a) (rotr x s1b)) (N.shiftr x s1c).

  (** message schedule; [win] holds the last 16 words, most recent first:
      W_t = sig1(W_{t-2}) + W_{t-7} + sig0(W_{t-15}) + W_{t-16} *)
  Fixpoint sched (n : nat) (win : list N) : list N :=
    match n with
    | O => []
    | S n' =>
        let x := wadd (wadd (sig1 (nth 1 win 0)) (nth 6 win 0))
                      (wadd (sig0 (nth 14 win 0)) (nth 15 win 0)) in
        x :: sched n' (x :: firstn 15 win)
    end.

  Definition round (st : list N) (kw : N * N) : list N :=
    match st with
    | [a; b; c; d; e; f; g; h] =>
        let '(k, x) := kw in
        let t1 := wadd (wadd (wadd h (Sig1 e)) (wadd (Ch e f g) k)) x in
        let t2 := wadd (Sig0 a) (Maj a b c) in
        [wadd t1 t2; a; b; c; wadd d t1; e; f; g]
    | _ => st
    end.

  Definition block (K : list N) (st : list N) (blk : list N) : list N :=
    let m := map be_word (chunk wb blk) in
    let W := m ++ sched (length K - 16) (rev m) in
    let st' := fold_left round (combine K W) st in
    map (fun '(x, y) => wadd x y) (combine st st').

  (** padding: 0x80, zeros, bit length as a big-endian integer of 2 words; block = 16 words *)
  Definition pad (msg : list N) : list N :=
    let bs := N.of_nat (16 * wb) in
    let n := N.of_nat (length msg) in
    let lenb := N.of_nat (2 * wb) in
    let z := (bs - 1 - lenb + bs - n mod bs) mod bs in
    msg ++ [128] ++ repeat 0 (N.to_nat z) ++ be_bytes (2 * wb) (8 * n).

  Definition hash (K H : list N) (outlen : nat) (msg : list N) : list N :=
    let st := fold_left (block K) (chunk (16 * wb) (pad msg)) H in
    firstn outlen (concat (map (be_bytes wb) st)).
End Core.

Definition sha256 : list N -> list N :=
  hash 32 m32 4 2 13 22 6 11 25 7 18 3 17 19 10 K256 H256 32.
Definition sha512 : list N -> list N :=
  hash 64 m64 8 28 34 39 14 18 41 1 8 7 19 61 6 K512 H512 64.
Definition sha384 : list N -> list N :=
  hash 64 m64 8 28 34 39 14 18 41 1 8 7 19 61 6 K512 H384 48.

(** FIPS 180-4 / NIST example vectors *)
Example sha256_empty :
  sha256 [] = unhex "e3b0c44298fc1c149afbf4c8996fb92427ae41e4649b934ca495991b7852b855".
Proof. vm_compute. reflexivity. Qed.
Example sha256_abc :
  sha256 (bytes_of_string "abc") = unhex "ba7816bf8f01cfea414140de5dae2223b00361a396177a9cb410ff61f20015ad".
Proof. vm_compute. reflexivity. Qed.
Example sha256_two_blocks :
  sha256 (bytes_of_string "abcdbcdecdefdefgefghfghighijhijkijkljklmklmnlmnomnopnopq")
  = unhex "248d6a61d20638b8e5c026930c3e6039a33ce45964ff2167f6ecedd419db06c1".
Proof. vm_compute. reflexivity. Qed.
Example sha512_abc :
  sha512 (bytes_of_string "abc")
  = unhex "ddaf35a193617abacc417349ae20413112e6fa4e89a97ea20a9eeee64b55d39a2192992a274fc1a836ba3c23a3feebbd454d4423643ce80e2a9ac94fa54ca49f".
Proof. vm_compute. reflexivity. Qed.
Example sha512_empty :
  sha512 []
  = unhex "cf83e1357eefb8bdf1542850d66d8007d620e4050b5715dc83f4a921d36ce9ce47d0d13c5d85f2b0ff8318d2877eec2f63b931bd47417a81a538327af927da3e".
Proof. vm_compute. reflexivity. Qed.
Example sha512_two_blocks :
  sha512 (bytes_of_string "abcdefghbcdefghicdefghijdefghijkefghijklfghijklmghijklmnhijklmnoijklmnopjklmnopqklmnopqrlmnopqrsmnopqrstnopqrstu")
  = unhex "8e959b75dae313da8cf4f72814fc143f8f7779c6eb9f7fa17299aeadb6889018501d289e4900f7e4331b99dec4b5433ac7d329eeb6dd26545e96e55b874be909".
Proof. vm_compute. reflexivity. Qed.
Example sha384_abc :
  sha384 (bytes_of_string "abc")
  = unhex "cb00753f45a35e8bb5a03d699ac65007272c32ab0eded1631a8b605a43ff5bed8086072ba1e7cc2358baeca134c825a7".
Proof. vm_compute. reflexivity. Qed.
Example sha384_empty :
  sha384 []
  = unhex "38b060a751ac96384cd9327eb1b1e36a21fdb71114be07434c0cc7bf63f6e1da274edebfe76f65fbd51ad2f14898b95b".
Proof. vm_compute. reflexivity. Qed.
