(** C23 — compute_user_hash (model) is Algorithm 4 / Algorithm 5 of ISO 32000-1, and
    validate_user_password (model, R2-R4) is Algorithm 6; user-side authentication is sound and
    complete.  md5 and rc4 stay opaque: only their equational lemmas from Proofs.v are used. *)
From OxVerif Require Import Base.Util C23.Tab C23.Rc4 C23.Md5 C23.Sha2 C23.Aes C23.Cbc C23.SecHandler C23.Model C23.Proofs.
Require Import Lia.

(** the optional first element of the file identifier, as the byte string the standard hashes *)
Definition idbytes (id : option (list N)) : list N := match id with Some i => i | None => [] end.

Lemma le_bytes_length n : forall w, length (le_bytes n w) = n.
Proof. induction n; intro w; cbn [le_bytes length]; auto. Qed.

Lemma md5_length msg : length (md5 msg) = 16%nat.
Proof.
  unfold md5. destruct (fold_left md5_block _ md5_init) as [[[a b] c] d].
  rewrite !app_length, !le_bytes_length. reflexivity.
Qed.

Lemma pad_string_length : length pad_string = 32%nat.
Proof. vm_compute. reflexivity. Qed.

Lemma key_model_eq_spec_opt R n pw O P id :
  m_compute_key R n (m_pad_password pw) O P id true = alg2 R n pw O P (idbytes id) true.
Proof.
  unfold m_compute_key, alg2, idbytes. rewrite m_pad_password_eq. cbn [negb]. rewrite andb_false_r.
  reflexivity.
Qed.

Lemma alg2_nonnil R n pw O P id em : (1 <= n)%nat -> alg2 R n pw O P id em <> [].
Proof.
  intro Hn. unfold alg2. destruct (3 <=? R).
  - rewrite iter_n_out. now apply firstn_md5_nonnil.
  - now apply firstn_md5_nonnil.
Qed.

Lemma fold_rc4_length key : forall l x,
  length (fold_left (fun acc i => rc4 (xor_const i key) acc) l x) = length x.
Proof.
  induction l as [|a l IH]; intro x; cbn [fold_left]; auto.
  rewrite IH. apply rc4_length.
Qed.

Lemma rc4_19_length key x : length (rc4_19 key x) = length x.
Proof. unfold rc4_19. apply fold_rc4_length. Qed.

Opaque md5 rc4.

(** the value compared by the model = the significant part of U by Algorithm 4 / 5 *)
Lemma user_hash_core_eq R key id : key <> [] -> 2 <= R ->
  m_user_hash_core R key id
  = if 3 <=? R then rc4_19 key (rc4 key (md5 (pad_string ++ idbytes id))) else rc4 key pad_string.
Proof.
  intros Hk HR. unfold m_user_hash_core.
  destruct (R =? 2) eqn:E2.
  - apply N.eqb_eq in E2. subst R. change (3 <=? 2) with false. cbv iota.
    now apply m_rc4'_eq.
  - apply N.eqb_neq in E2.
    replace (3 <=? R) with true by (symmetry; apply N.leb_le; lia).
    rewrite fold_rc4_eq by assumption. rewrite m_rc4'_eq by assumption. reflexivity.
Qed.

Lemma user_hash_core_length R key id : key <> [] -> 2 <= R ->
  length (m_user_hash_core R key id) = sig_len R.
Proof.
  intros Hk HR. rewrite user_hash_core_eq by assumption. unfold sig_len.
  destruct (3 <=? R).
  - rewrite rc4_19_length, rc4_length. apply md5_length.
  - rewrite rc4_length. apply pad_string_length.
Qed.

(** (1) compute_user_hash = Algorithm 4 (R2) / Algorithm 5 (R3, R4) on the significant bytes *)
Theorem user_hash_model_eq_spec_opt R n pw O P id : (1 <= n)%nat -> 2 <= R ->
  firstn (sig_len R) (m_compute_user_hash R n pw O P id) = alg45_sig R n pw O P (idbytes id) true.
Proof.
  intros Hn HR. unfold m_compute_user_hash, alg45_sig. cbv zeta.
  rewrite key_model_eq_spec_opt.
  set (key := alg2 R n pw O P (idbytes id) true).
  assert (Hk : key <> []) by (now apply alg2_nonnil).
  pose proof (user_hash_core_length R key id Hk HR) as HL.
  rewrite <- (user_hash_core_eq R key id Hk HR).
  destruct (R =? 2) eqn:E2.
  - apply firstn_all2. lia.
  - unfold resize0. apply N.eqb_neq in E2.
    assert (H3 : 3 <=? R = true) by (apply N.leb_le; lia).
    unfold sig_len in *. rewrite H3 in *.
    rewrite (firstn_all2 (n := 32)) by lia.
    rewrite firstn_app, HL, Nat.sub_diag. rewrite firstn_O, app_nil_r.
    apply firstn_all2. lia.
Qed.

Theorem user_hash_model_eq_spec_thm R n pw O P id : (1 <= n)%nat -> 2 <= R ->
  firstn (sig_len R) (m_compute_user_hash R n pw O P (Some id)) = alg45_sig R n pw O P id true.
Proof. exact (fun Hn HR => user_hash_model_eq_spec_opt R n pw O P (Some id) Hn HR). Qed.

(** the whole U entry: R2 the 32 bytes of Algorithm 4; R3/R4 Algorithm 5's 16 bytes followed by
    16 bytes of (here: zero) padding *)
Theorem user_hash_model_full R n pw O P id : (1 <= n)%nat -> 2 <= R ->
  m_compute_user_hash R n pw O P id
  = if 3 <=? R then alg45_sig R n pw O P (idbytes id) true ++ repeat 0 16
    else alg45_sig R n pw O P (idbytes id) true.
Proof.
  intros Hn HR. unfold m_compute_user_hash, alg45_sig. cbv zeta.
  rewrite key_model_eq_spec_opt.
  set (key := alg2 R n pw O P (idbytes id) true).
  assert (Hk : key <> []) by (now apply alg2_nonnil).
  pose proof (user_hash_core_length R key id Hk HR) as HL.
  rewrite <- (user_hash_core_eq R key id Hk HR).
  destruct (R =? 2) eqn:E2.
  - apply N.eqb_eq in E2. subst R. reflexivity.
  - apply N.eqb_neq in E2.
    assert (H3 : 3 <=? R = true) by (apply N.leb_le; lia).
    unfold sig_len in HL. rewrite H3 in *.
    unfold resize0. rewrite HL. rewrite firstn_all2 by lia. reflexivity.
Qed.

Lemma user_hash_model_length R n pw O P id : (1 <= n)%nat -> 2 <= R ->
  length (m_compute_user_hash R n pw O P id) = 32%nat.
Proof.
  intros Hn HR. pose proof (user_hash_model_eq_spec_opt R n pw O P id Hn HR) as E.
  rewrite user_hash_model_full by assumption.
  rewrite <- E. clear E.
  unfold m_compute_user_hash. cbv zeta. rewrite key_model_eq_spec_opt.
  set (key := alg2 R n pw O P (idbytes id) true).
  assert (Hk : key <> []) by (now apply alg2_nonnil).
  pose proof (user_hash_core_length R key id Hk HR) as HL.
  unfold sig_len in *.
  destruct (R =? 2) eqn:E2.
  - apply N.eqb_eq in E2. subst R. change (3 <=? 2) with false in *. cbv iota in *.
    rewrite firstn_length. lia.
  - apply N.eqb_neq in E2.
    assert (H3 : 3 <=? R = true) by (apply N.leb_le; lia). rewrite H3 in *.
    rewrite app_length, firstn_length, repeat_length.
    unfold resize0. rewrite app_length, firstn_length, repeat_length. lia.
Qed.

(** (3a) validate_user_password (R2-R4) is Algorithm 6, for every U (also too short ones) *)
Lemma bytes_eqb_length_neq a b : length a <> length b -> bytes_eqb a b = false.
Proof.
  intro H. destruct (bytes_eqb a b) eqn:E; [|reflexivity].
  apply bytes_eqb_eq in E. subst. congruence.
Qed.

Theorem validate_user_model_eq_spec_opt R n pw U O P id : (1 <= n)%nat -> 2 <= R ->
  m_validate_user R n pw U O P id = alg6 R n pw U O P (idbytes id) true.
Proof.
  intros Hn HR. unfold m_validate_user, alg6, alg45_sig. cbv zeta.
  rewrite key_model_eq_spec_opt.
  set (key := alg2 R n pw O P (idbytes id) true).
  assert (Hk : key <> []) by (now apply alg2_nonnil).
  pose proof (user_hash_core_length R key id Hk HR) as HL.
  rewrite <- (user_hash_core_eq R key id Hk HR).
  unfold sig_len in *.
  destruct (R =? 2) eqn:E2.
  - apply N.eqb_eq in E2. subst R. change (3 <=? 2) with false in *. cbv iota in *.
    destruct (32 <=? length U)%nat eqn:EL; [reflexivity|].
    apply Nat.leb_gt in EL. cbn [andb]. symmetry. apply bytes_eqb_length_neq.
    rewrite firstn_length. lia.
  - apply N.eqb_neq in E2.
    assert (H3 : 3 <=? R = true) by (apply N.leb_le; lia). rewrite H3 in *.
    rewrite (firstn_all2 (n := 16) (m_user_hash_core R key id)) by lia.
    destruct (16 <=? length U)%nat eqn:EL; [reflexivity|].
    apply Nat.leb_gt in EL. cbn [andb]. symmetry. apply bytes_eqb_length_neq.
    rewrite firstn_length. lia.
Qed.

(** (3a) sound: an accepted password is one whose Algorithm 4/5 value is the compared prefix of
    the stored U (32 bytes for R2, 16 for R3/R4); complete: conversely *)
Theorem user_auth_iff_thm R n pw U O P id : (1 <= n)%nat -> 2 <= R ->
  (m_validate_user R n pw U O P id = true
   <-> firstn (sig_len R) U = alg45_sig R n pw O P (idbytes id) true).
Proof.
  intros Hn HR. rewrite validate_user_model_eq_spec_opt by assumption.
  unfold alg6. rewrite bytes_eqb_eq. split; intro H; symmetry; exact H.
Qed.

Theorem user_auth_sound_thm R n pw U O P id : (1 <= n)%nat -> 2 <= R ->
  m_validate_user R n pw U O P id = true ->
  firstn (sig_len R) U = firstn (sig_len R) (m_compute_user_hash R n pw O P id).
Proof.
  intros Hn HR H. rewrite user_hash_model_eq_spec_opt by assumption.
  now apply user_auth_iff_thm.
Qed.

Theorem user_auth_complete_thm R n pw U O P id : (1 <= n)%nat -> 2 <= R ->
  firstn (sig_len R) U = firstn (sig_len R) (m_compute_user_hash R n pw O P id) ->
  m_validate_user R n pw U O P id = true.
Proof.
  intros Hn HR H. rewrite user_hash_model_eq_spec_opt in H by assumption.
  now apply user_auth_iff_thm.
Qed.

(** in particular the U entry written by compute_user_hash authenticates its own password *)
Corollary user_auth_selfcheck_thm R n pw O P id : (1 <= n)%nat -> 2 <= R ->
  m_validate_user R n pw (m_compute_user_hash R n pw O P id) O P id = true.
Proof. intros Hn HR. now apply user_auth_complete_thm. Qed.

(** compute_object_key = Algorithm 1 (RC4 branch): low 3 bytes of the object number, low 2 of the generation *)
Lemma firstn_le_bytes : forall n m w, (n <= m)%nat -> firstn n (le_bytes m w) = le_bytes n w.
Proof.
  induction n as [|n IH]; intros m w H; [reflexivity|].
  destruct m as [|m]; [lia|]. cbn [le_bytes firstn]. f_equal. apply IH. lia.
Qed.

Theorem object_key_model_eq_spec_thm key num gen : m_object_key key num gen = alg1 key num gen.
Proof. unfold m_object_key, alg1. rewrite !firstn_le_bytes by lia. reflexivity. Qed.

Transparent md5 rc4.

(** the hypotheses are satisfiable on non-trivial values (R3, 16-byte key; R2, 5-byte key) *)
Example user_hash_example :
  let O := alg3 3 16 (bytes_of_string "owner") (bytes_of_string "user") in
  m_validate_user 3 16 (bytes_of_string "user")
     (m_compute_user_hash 3 16 (bytes_of_string "user") O 4294963392 (Some (unhex "00112233445566778899aabbccddeeff")))
     O 4294963392 (Some (unhex "00112233445566778899aabbccddeeff")) = true
  /\ m_validate_user 2 5 (bytes_of_string "wrong")
     (m_compute_user_hash 2 5 (bytes_of_string "user") O 4294963392 None) O 4294963392 None = false.
Proof. vm_compute. split; reflexivity. Qed.
