(** C23 — the model of compute_hash_r6_algorithm_2b equals Algorithm 2.B of ISO 32000-2
    (SecHandler.alg2b).  Differences bridged here:
      - the model selects the hash by (sum of the first 16 bytes of E) mod 3, the standard by the
        16 bytes read as a big-endian integer mod 3   (256 = 1 mod 3);
      - the model zero-pads K1 to a multiple of 16 and K to 32 bytes (no-ops on the reachable states);
      - the model's termination test is  last <= round - 32 , the standard's  last + 32 <= round;
      - the model has a 2048-round cap and fuel 2048, the specification fuel 400: both loops end by
        round 287 because the last byte of E is a byte.
    SHA-256/384/512 and the AES cipher stay opaque: only "the digest is a byte string of at least
    32 bytes" and [cipher_wf] are used. *)
From OxVerif Require Import Base.Util C23.Tab C23.Rc4 C23.Md5 C23.Sha2 C23.Aes C23.Cbc C23.SecHandler C23.Model C23.Proofs C23.AesInv C23.AesCbc.
Require Import Lia.
Open Scope N_scope.

(** * digests are byte strings of known length *)
Lemma le_bytes_len n : forall w, length (le_bytes n w) = n.
Proof. induction n; intro w; cbn [le_bytes length]; auto. Qed.

Lemma be_bytes_len n w : length (be_bytes n w) = n.
Proof. unfold be_bytes. rewrite rev_length. apply le_bytes_len. Qed.

Lemma bytes_ok_app a b : bytes_ok (a ++ b) = bytes_ok a && bytes_ok b.
Proof. unfold bytes_ok. apply forallb_app. Qed.

Lemma bytes_ok_rev l : bytes_ok l = true -> bytes_ok (rev l) = true.
Proof.
  intro H. apply bytes_ok_forall. apply bytes_ok_forall in H.
  rewrite Forall_forall in *. intros x Hx. apply H. now apply in_rev.
Qed.

Lemma be_bytes_ok n w : bytes_ok (be_bytes n w) = true.
Proof. unfold be_bytes. apply bytes_ok_rev, le_bytes_ok. Qed.

Section ShaShape.
  Variable (w mask : N) (wb : nat).
  Variable (S0a S0b S0c S1a S1b S1c s0a s0b s0c s1a s1b s1c : N).
  Let rnd := round w mask S0a S0b S0c S1a S1b S1c.
  Let blk := block w mask wb S0a S0b S0c S1a S1b S1c s0a s0b s0c s1a s1b s1c.

  Lemma round_length st kw : length (rnd st kw) = length st.
  Proof.
    unfold rnd, round.
    destruct st as [|a [|b [|c [|d [|e [|f [|g [|h [|i r]]]]]]]]]; try reflexivity.
    destruct kw. reflexivity.
  Qed.

  Lemma fold_round_length : forall l st, length (fold_left rnd l st) = length st.
  Proof. induction l as [|x l IH]; intro st; cbn [fold_left]; auto. rewrite IH. apply round_length. Qed.

  Lemma block_length K st b : length (blk K st b) = length st.
  Proof.
    unfold blk, block. rewrite map_length, combine_length.
    fold rnd. rewrite fold_round_length. apply Nat.min_id.
  Qed.

  Lemma fold_block_length K : forall l st, length (fold_left (blk K) l st) = length st.
  Proof. induction l as [|x l IH]; intro st; cbn [fold_left]; auto. rewrite IH. apply block_length. Qed.

  Lemma concat_be_bytes_length : forall st, length (concat (map (be_bytes wb) st)) = (length st * wb)%nat.
  Proof.
    induction st as [|x st IH]; [reflexivity|].
    cbn [map concat length]. rewrite app_length, be_bytes_len, IH. lia.
  Qed.

  Lemma concat_be_bytes_ok : forall st, bytes_ok (concat (map (be_bytes wb) st)) = true.
  Proof.
    induction st as [|x st IH]; [reflexivity|].
    cbn [map concat]. rewrite bytes_ok_app, be_bytes_ok, IH. reflexivity.
  Qed.

  Lemma hash_shape K H outlen msg :
    length (hash w mask wb S0a S0b S0c S1a S1b S1c s0a s0b s0c s1a s1b s1c K H outlen msg)
      = Nat.min outlen (length H * wb)
    /\ bytes_ok (hash w mask wb S0a S0b S0c S1a S1b S1c s0a s0b s0c s1a s1b s1c K H outlen msg) = true.
  Proof.
    unfold hash. split.
    - rewrite firstn_length, concat_be_bytes_length. fold blk. rewrite fold_block_length. reflexivity.
    - apply bytes_ok_firstn, concat_be_bytes_ok.
  Qed.
End ShaShape.

Lemma sha256_shape x : length (sha256 x) = 32%nat /\ bytes_ok (sha256 x) = true.
Proof. unfold sha256. destruct (hash_shape 32 m32 4 2 13 22 6 11 25 7 18 3 17 19 10 K256 H256 32 x) as [A B]. split; [rewrite A; reflexivity | exact B]. Qed.
Lemma sha384_shape x : length (sha384 x) = 48%nat /\ bytes_ok (sha384 x) = true.
Proof. unfold sha384. destruct (hash_shape 64 m64 8 28 34 39 14 18 41 1 8 7 19 61 6 K512 H384 48 x) as [A B]. split; [rewrite A; reflexivity | exact B]. Qed.
Lemma sha512_shape x : length (sha512 x) = 64%nat /\ bytes_ok (sha512 x) = true.
Proof. unfold sha512. destruct (hash_shape 64 m64 8 28 34 39 14 18 41 1 8 7 19 61 6 K512 H512 64 x) as [A B]. split; [rewrite A; reflexivity | exact B]. Qed.

Opaque sha256 sha384 sha512 cipher.

(** * the intermediate hash K: at least 32 bytes, all bytes *)
Definition goodK (K : list N) : Prop := (32 <= length K)%nat /\ bytes_ok K = true.

Lemma sha256_good x : goodK (sha256 x).
Proof. destruct (sha256_shape x) as [A B]. split; [lia | exact B]. Qed.
Lemma sha384_good x : goodK (sha384 x).
Proof. destruct (sha384_shape x) as [A B]. split; [lia | exact B]. Qed.
Lemma sha512_good x : goodK (sha512 x).
Proof. destruct (sha512_shape x) as [A B]. split; [lia | exact B]. Qed.

(** * big-endian value mod 3 = byte sum mod 3 *)
Lemma lor_shiftl8 a b : b < 256 -> N.lor (N.shiftl a 8) b = a * 256 + b.
Proof.
  intro Hb.
  assert (Hd : N.land (N.shiftl a 8) b = 0).
  { apply N.bits_inj. intro i. rewrite N.land_spec, N.bits_0.
    destruct (N.lt_ge_cases i 8) as [Hi|Hi].
    - rewrite N.shiftl_spec_low by assumption. reflexivity.
    - replace (N.testbit b i) with false; [apply andb_false_r|].
      symmetry. rewrite <- (N.mod_small b (2 ^ 8)) by exact Hb.
      apply N.mod_pow2_bits_high. exact Hi. }
  rewrite <- N.lxor_lor by exact Hd. rewrite <- N.add_nocarry_lxor by exact Hd.
  rewrite N.shiftl_mul_pow2. reflexivity.
Qed.

Lemma mod3_step a a' b : a mod 3 = a' mod 3 -> (a * 256 + b) mod 3 = (a' + b) mod 3.
Proof.
  intro H.
  replace (a * 256 + b) with (a + b + a * 85 * 3) by lia.
  rewrite N.mod_add by discriminate.
  rewrite (N.add_mod a b), (N.add_mod a' b) by discriminate. rewrite H. reflexivity.
Qed.

Lemma be_word_mod3_gen : forall l a a', bytes_ok l = true -> a mod 3 = a' mod 3 ->
  fold_left (fun acc b => N.lor (N.shiftl acc 8) b) l a mod 3 = fold_left N.add l a' mod 3.
Proof.
  induction l as [|b l IH]; intros a a' Hl Ha; cbn [fold_left]; [exact Ha|].
  unfold bytes_ok in Hl. cbn [forallb] in Hl. apply andb_true_iff in Hl. destruct Hl as [Hb Hl].
  apply IH; [exact Hl|]. unfold byte_ok in Hb. apply N.ltb_lt in Hb.
  rewrite lor_shiftl8 by exact Hb. now apply mod3_step.
Qed.

Lemma be_word_mod3 l : bytes_ok l = true -> be_word l mod 3 = fold_left N.add l 0 mod 3.
Proof. intro H. unfold be_word. now apply be_word_mod3_gen. Qed.

(** * K1: 64 repetitions — length a multiple of 16, all bytes *)
Lemma concat_repeat_length (u : list N) : forall n, length (concat (repeat u n)) = (n * length u)%nat.
Proof. induction n; [reflexivity|]. cbn [repeat concat]. rewrite app_length, IHn. lia. Qed.

Lemma concat_repeat_ok (u : list N) : bytes_ok u = true -> forall n, bytes_ok (concat (repeat u n)) = true.
Proof. intros Hu. induction n; [reflexivity|]. cbn [repeat concat]. rewrite bytes_ok_app, Hu, IHn. reflexivity. Qed.

Lemma k1_mod16 (u : list N) : (length (concat (repeat u 64)) mod 16 = 0)%nat.
Proof.
  rewrite concat_repeat_length. replace (64 * length u)%nat with ((4 * length u) * 16)%nat by lia.
  apply Nat.mod_mul. discriminate.
Qed.

Lemma concat_wf_ok : forall bs, Forall wf bs -> bytes_ok (concat bs) = true.
Proof.
  induction 1 as [|b r [_ Hb] _ IH]; [reflexivity|]. cbn [concat]. rewrite bytes_ok_app, Hb, IH. reflexivity.
Qed.

Lemma last_ok : forall l, bytes_ok l = true -> last l 0 < 256.
Proof.
  induction l as [|a l IH]; intro H; [reflexivity|].
  unfold bytes_ok in H. cbn [forallb] in H. apply andb_true_iff in H. destruct H as [Ha Hl].
  destruct l as [|b l']; [apply N.ltb_lt; exact Ha|].
  change (last (a :: b :: l') 0) with (last (b :: l') 0). apply IH. exact Hl.
Qed.

(** the E of one round is a byte string *)
Lemma round_E_ok pw u K : goodK K -> bytes_ok pw = true -> bytes_ok u = true ->
  bytes_ok (cbc_encrypt_raw cipher (firstn 16 K) (firstn 16 (skipn 16 K)) (concat (repeat (pw ++ K ++ u) 64))) = true.
Proof.
  intros [HlK HbK] Hpw Hu. unfold cbc_encrypt_raw. apply concat_wf_ok.
  assert (Hkey : AesInv.key_ok (firstn 16 K)).
  { split; [left; rewrite firstn_length; lia | now apply bytes_ok_firstn]. }
  assert (Hiv : wf (firstn 16 (skipn 16 K))).
  { split; [rewrite firstn_length, skipn_length; lia | now apply bytes_ok_firstn, bytes_ok_skipn]. }
  apply (enc_blocks_eq _ Hkey); [|exact Hiv].
  apply chunk_wf; [apply k1_mod16|].
  apply concat_repeat_ok. rewrite !bytes_ok_app, Hpw, HbK, Hu. reflexivity.
Qed.

Definition u48 (u : list N) : list N := match u with [] => [] | _ => firstn 48 u end.

Lemma u48_id u : (length u <= 48)%nat -> u48 u = u.
Proof. intro H. destruct u; [reflexivity|]. unfold u48. now apply firstn_all2. Qed.

(** * one round: model = Algorithm 2.B (a)-(d) *)
Lemma round_eq pw u K : goodK K -> bytes_ok pw = true -> bytes_ok u = true -> (length u <= 48)%nat ->
  m_2b_round pw u K = alg2b_round pw u K.
Proof.
  intros HK Hpw Hu Hul. pose proof (round_E_ok pw u K HK Hpw Hu) as HE.
  destruct HK as [HlK HbK].
  unfold m_2b_round, alg2b_round. fold (u48 u). rewrite (u48_id u Hul). cbv zeta.
  set (K1 := concat (repeat (pw ++ K ++ u) 64)) in *.
  pose proof (k1_mod16 (pw ++ K ++ u)) as Hm. fold K1 in Hm.
  rewrite Hm. change ((16 - 0) mod 16)%nat with 0%nat. cbn [repeat]. rewrite app_nil_r.
  replace (32 - length K)%nat with 0%nat by lia. cbn [repeat]. rewrite app_nil_r.
  unfold m_encrypt_cbc_raw.
  replace (length (firstn 16 (skipn 16 K)) =? 16)%nat with true
    by (symmetry; apply Nat.eqb_eq; rewrite firstn_length, skipn_length; lia).
  rewrite Hm. cbn [negb Nat.eqb].
  set (E := cbc_encrypt_raw cipher (firstn 16 K) (firstn 16 (skipn 16 K)) K1) in *.
  rewrite <- (be_word_mod3 (firstn 16 E)) by (now apply bytes_ok_firstn).
  f_equal.
  destruct (be_word (firstn 16 E) mod 3) as [|[p|p|]]; reflexivity.
Qed.

Lemma round_good pw u K K' l : goodK K -> bytes_ok pw = true -> bytes_ok u = true ->
  alg2b_round pw u K = (K', l) -> goodK K' /\ l < 256.
Proof.
  intros HK Hpw Hu. pose proof (round_E_ok pw u K HK Hpw Hu) as HE.
  unfold alg2b_round. cbv zeta. intro H. injection H as H1 H2. subst K' l. split.
  - destruct (be_word _ mod 3) as [|[p|p|]];
      [apply sha256_good | apply sha512_good | apply sha512_good | apply sha384_good].
  - apply last_ok. exact HE.
Qed.

(** * the loop: both end at round 287 at the latest *)
Lemma loop_eq pw u : bytes_ok pw = true -> bytes_ok u = true -> (length u <= 48)%nat ->
  forall f1 f2 K i, goodK K -> i < 288 -> 288 <= N.of_nat f1 + i -> 288 <= N.of_nat f2 + i ->
  m_2b_loop f2 pw u K i = alg2b_loop f1 pw u K i /\ goodK (alg2b_loop f1 pw u K i).
Proof.
  intros Hpw Hu Hul. induction f1 as [|f1 IH]; intros f2 K i HK Hi H1 H2; [lia|].
  destruct f2 as [|f2]; [lia|].
  cbn [m_2b_loop alg2b_loop]. rewrite (round_eq pw u K HK Hpw Hu Hul).
  destruct (alg2b_round pw u K) as [K' l] eqn:ER.
  destruct (round_good pw u K K' l HK Hpw Hu ER) as [HK' Hl].
  destruct (64 <=? i + 1) eqn:E64; cbn [andb].
  - apply N.leb_le in E64.
    replace (l <=? i + 1 - 32) with (l + 32 <=? i + 1)
      by (apply Bool.eq_true_iff_eq; rewrite !N.leb_le; lia).
    destruct (l + 32 <=? i + 1) eqn:EL; [split; [reflexivity | exact HK']|].
    apply N.leb_gt in EL.
    replace (2048 <=? i + 1) with false by (symmetry; apply N.leb_gt; lia).
    apply IH; [exact HK' | lia | lia | lia].
  - apply N.leb_gt in E64.
    replace (2048 <=? i + 1) with false by (symmetry; apply N.leb_gt; lia).
    apply IH; [exact HK' | lia | lia | lia].
Qed.

(** (2) compute_hash_r6_algorithm_2b = Algorithm 2.B, for every password of at most 127 bytes,
    every salt, and u the empty string (user side) or the 48-byte U (owner side) *)
Theorem alg2b_model_eq_spec_thm pw salt u :
  (length pw <= 127)%nat -> (length u <= 48)%nat -> bytes_ok pw = true -> bytes_ok u = true ->
  m_2b pw salt u = Some (alg2b pw salt u).
Proof.
  intros Hl Hul Hpw Hu. unfold m_2b, alg2b.
  replace (127 <? length pw)%nat with false by (symmetry; apply Nat.ltb_ge; exact Hl).
  fold (u48 u). rewrite (u48_id u Hul). f_equal. f_equal.
  apply (loop_eq pw u Hpw Hu Hul 400 2048); [apply sha256_good | reflexivity | discriminate | discriminate].
Qed.

(** passwords longer than 127 bytes are refused (the standard truncates to 127 before hashing) *)
Lemma alg2b_model_long_pw pw salt u : (127 < length pw)%nat -> m_2b pw salt u = None.
Proof. intro H. unfold m_2b. now replace (127 <? length pw)%nat with true by (symmetry; apply Nat.ltb_lt; exact H). Qed.

Lemma alg2b_length pw salt u : bytes_ok pw = true -> bytes_ok u = true -> (length u <= 48)%nat ->
  length (alg2b pw salt u) = 32%nat /\ bytes_ok (alg2b pw salt u) = true.
Proof.
  intros Hpw Hu Hul. unfold alg2b.
  destruct (loop_eq pw u Hpw Hu Hul 400 2048 (sha256 (pw ++ salt ++ u)) 0) as [_ [HL HB]];
    [apply sha256_good | reflexivity | discriminate | discriminate |].
  split; [rewrite firstn_length; lia | now apply bytes_ok_firstn].
Qed.

(** the loop body equality alone needs no bound on the password (kept for reference) *)
Definition alg2b_round_model_eq_spec := round_eq.

(** * R5 / R6 hash and user-side authentication (Algorithms 8, 11) *)
Lemma hash56_model_eq_spec R pw salt u :
  (length pw <= 127)%nat -> (length u <= 48)%nat -> bytes_ok pw = true -> bytes_ok u = true ->
  m_hash56 R pw salt u = Some (hash56 R pw salt u).
Proof.
  intros Hl Hul Hpw Hu. unfold m_hash56, hash56. destruct (R =? 5); [reflexivity|].
  now apply alg2b_model_eq_spec_thm.
Qed.

Lemma hash56_length R pw salt u : bytes_ok pw = true -> bytes_ok u = true -> (length u <= 48)%nat ->
  length (hash56 R pw salt u) = 32%nat.
Proof.
  intros Hpw Hu Hul. unfold hash56. destruct (R =? 5).
  - apply sha256_shape.
  - now apply alg2b_length.
Qed.

(** compute_r5/r6_user_hash = Algorithm 8 (a): U = hash ‖ validation salt ‖ key salt *)
Theorem r56_user_hash_model_eq_spec_thm R pw vsalt ksalt :
  (length pw <= 127)%nat -> bytes_ok pw = true ->
  m_r56_user_hash R pw vsalt ksalt = Some (alg8_U R pw vsalt ksalt).
Proof.
  intros Hl Hpw. unfold m_r56_user_hash, alg8_U.
  rewrite hash56_model_eq_spec by (auto; cbn; lia). cbn [obind].
  rewrite firstn_all2 by (rewrite hash56_length by (auto; cbn; lia); lia). reflexivity.
Qed.

(** validate_r5/r6_user_password = Algorithm 11 *)
Theorem r56_validate_user_model_eq_spec_thm R pw U :
  (length pw <= 127)%nat -> bytes_ok pw = true -> (48 <= length U)%nat ->
  m_r56_validate_user R pw U = Some (b2l (alg11 R pw U)).
Proof.
  intros Hl Hpw HU. unfold m_r56_validate_user, alg11.
  replace (length U <? 48)%nat with false by (symmetry; apply Nat.ltb_ge; exact HU).
  rewrite hash56_model_eq_spec by (auto; cbn; lia). cbn [obind].
  rewrite firstn_all2 by (rewrite hash56_length by (auto; cbn; lia); lia). reflexivity.
Qed.

(** sound and complete: accepted iff the first 32 bytes of U are the hash of the password with
    the validation salt stored in U[32..40] *)
Theorem r56_user_auth_iff_thm R pw U :
  (length pw <= 127)%nat -> bytes_ok pw = true -> (48 <= length U)%nat ->
  (m_r56_validate_user R pw U = Some [1] <-> firstn 32 U = hash56 R pw (slice 32 40 U) []).
Proof.
  intros Hl Hpw HU. rewrite r56_validate_user_model_eq_spec_thm by assumption.
  unfold alg11, b2l. split.
  - intro H. destruct (bytes_eqb _ _) eqn:E; [|discriminate].
    apply bytes_eqb_eq in E. symmetry. exact E.
  - intro H. rewrite H. replace (bytes_eqb _ _) with true; [reflexivity|].
    symmetry. apply bytes_eqb_eq. reflexivity.
Qed.

(** a U entry produced by compute_r5/r6_user_hash authenticates its own password *)
Theorem r56_user_auth_selfcheck_thm R pw vsalt ksalt U :
  (length pw <= 127)%nat -> bytes_ok pw = true -> length vsalt = 8%nat -> length ksalt = 8%nat ->
  m_r56_user_hash R pw vsalt ksalt = Some U ->
  length U = 48%nat /\ m_r56_validate_user R pw U = Some [1].
Proof.
  intros Hl Hpw Hv Hk HU. rewrite r56_user_hash_model_eq_spec_thm in HU by assumption.
  injection HU as HU. subst U. unfold alg8_U.
  assert (HL : length (hash56 R pw vsalt []) = 32%nat) by (apply hash56_length; auto; cbn; lia).
  assert (Hlen : length (hash56 R pw vsalt [] ++ vsalt ++ ksalt) = 48%nat)
    by (rewrite !app_length, HL, Hv, Hk; reflexivity).
  split; [exact Hlen|].
  apply r56_user_auth_iff_thm; [assumption | assumption | lia |].
  unfold slice. rewrite skipn_app, HL, Nat.sub_diag. rewrite skipn_all2 by lia.
  cbn [app skipn]. rewrite firstn_app, HL, Nat.sub_diag, firstn_O, app_nil_r.
  rewrite firstn_all2 by lia.
  rewrite firstn_app, Hv, Nat.sub_diag, firstn_O, app_nil_r.
  change (40 - 32)%nat with 8%nat. rewrite firstn_all2 by lia. reflexivity.
Qed.

Transparent sha256 sha384 sha512 cipher.

(** the hypotheses are satisfiable: R5 on a concrete password (R6 costs a minute of vm_compute and is
    exercised by the correspondence run instead) *)
Example r56_user_auth_example :
  let pw := bytes_of_string "user" in
  let vs := unhex "0102030405060708" in let ks := unhex "1112131415161718" in
  match m_r56_user_hash 5 pw vs ks with
  | Some U => m_r56_validate_user 5 pw U = Some [1] /\ m_r56_validate_user 5 (bytes_of_string "wrong") U = Some [0]
  | None => False
  end.
Proof. vm_compute. split; reflexivity. Qed.
