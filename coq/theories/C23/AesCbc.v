(** C23 — the CBC / PKCS#7 / key-wrap / Perms round trips with the FIPS-197 cipher substituted:
    the block-cipher Section of Proofs.v is instantiated with total wrappers of [cipher] /
    [inv_cipher] (identity outside the domain), whose hypotheses are discharged by [aes_inv];
    inside the domain (16/32-byte keys, byte data) the wrappers are the FIPS functions. *)
From OxVerif Require Import Base.Util C23.Tab C23.Aes C23.Cbc C23.SecHandler C23.Proofs C23.AesInv.
Open Scope N_scope.

Definition okb (b : list N) : bool := (length b =? 16)%nat && bytes_ok b.
Definition okk (k : list N) : bool := ((length k =? 16)%nat || (length k =? 32)%nat) && bytes_ok k.

Lemma okb_wf b : okb b = true <-> wf b.
Proof. unfold okb, wf. rewrite andb_true_iff, Nat.eqb_eq. tauto. Qed.
Lemma okk_key_ok k : okk k = true <-> key_ok k.
Proof. unfold okk, key_ok. rewrite andb_true_iff, orb_true_iff, !Nat.eqb_eq. tauto. Qed.

Definition E' : cipherfn := fun k b => if okk k && okb b then cipher k b else b.
Definition D' : cipherfn := fun k c => if okk k && okb c then inv_cipher k c else c.

Lemma DE' k b : length b = 16%nat -> D' k (E' k b) = b.
Proof.
  intros _. unfold D', E'. destruct (okk k) eqn:Ek; cbn [andb]; [|reflexivity].
  destruct (okb b) eqn:Eb.
  - apply okk_key_ok in Ek. apply okb_wf in Eb.
    pose proof (cipher_wf k b Ek Eb) as Hc. apply okb_wf in Hc. rewrite Hc. apply aes_inv; assumption.
  - rewrite Eb. reflexivity.
Qed.

Lemma Elen' k b : length b = 16%nat -> length (E' k b) = 16%nat.
Proof.
  intros Hl. unfold E'. destruct (okk k && okb b) eqn:E; [|exact Hl].
  apply andb_true_iff in E. destruct E as [Ek Eb]. apply okk_key_ok in Ek. apply okb_wf in Eb.
  exact (proj1 (cipher_wf k b Ek Eb)).
Qed.

(** inside the domain the wrappers are the FIPS functions *)
Lemma xorl_wf a b : wf a -> wf b -> wf (xorl a b).
Proof. intros [La Ba] [Lb Bb]. split; [rewrite xorl_length; exact La | apply xorl_bytes_ok; assumption]. Qed.

Lemma enc_blocks_eq k : key_ok k -> forall bs prev, Forall wf bs -> wf prev ->
  cbc_enc_blocks E' k prev bs = cbc_enc_blocks cipher k prev bs /\ Forall wf (cbc_enc_blocks cipher k prev bs).
Proof.
  intros Hk. induction bs as [|b r IH]; intros prev Hbs Hp; [split; constructor|].
  inversion Hbs as [|? ? Hb Hr]; subst. cbn [cbc_enc_blocks].
  pose proof (xorl_wf b prev Hb Hp) as Hx.
  assert (HE : E' k (xorl b prev) = cipher k (xorl b prev)).
  { unfold E'. rewrite (proj2 (okk_key_ok k) Hk), (proj2 (okb_wf _) Hx). reflexivity. }
  rewrite HE. pose proof (cipher_wf k _ Hk Hx) as Hc.
  destruct (IH (cipher k (xorl b prev)) Hr Hc) as [I1 I2].
  split; [f_equal; exact I1 | constructor; assumption].
Qed.

Lemma dec_blocks_eq k : key_ok k -> forall cs prev, Forall wf cs ->
  cbc_dec_blocks D' k prev cs = cbc_dec_blocks inv_cipher k prev cs.
Proof.
  intros Hk. induction cs as [|c r IH]; intros prev Hcs; [reflexivity|].
  inversion Hcs as [|? ? Hc Hr]; subst. cbn [cbc_dec_blocks].
  unfold D' at 1. rewrite (proj2 (okk_key_ok k) Hk), (proj2 (okb_wf _) Hc). cbn [andb].
  f_equal. apply IH. exact Hr.
Qed.

Lemma bytes_ok_firstn n : forall l, bytes_ok l = true -> bytes_ok (firstn n l) = true.
Proof.
  induction n as [|n IH]; intros [|a l] H; try reflexivity.
  cbn [firstn]. unfold bytes_ok in *. cbn [forallb] in *. apply andb_true_iff in H. destruct H as [H1 H2].
  rewrite H1. cbn [andb]. apply IH. exact H2.
Qed.
Lemma bytes_ok_skipn n : forall l, bytes_ok l = true -> bytes_ok (skipn n l) = true.
Proof.
  induction n as [|n IH]; intros [|a l] H; try reflexivity; try exact H.
  cbn [skipn]. unfold bytes_ok in *. cbn [forallb] in H. apply andb_true_iff in H. apply IH. exact (proj2 H).
Qed.

Lemma chunks_bytes_ok : forall fuel l, bytes_ok l = true ->
  Forall (fun b => bytes_ok b = true) (chunks fuel 16 l).
Proof.
  induction fuel; intros l H; [constructor|]. cbn [chunks]. destruct l as [|a l'] eqn:El; [constructor|].
  rewrite <- El in *. constructor; [apply bytes_ok_firstn; exact H | apply IHfuel, bytes_ok_skipn, H].
Qed.

Lemma chunk_wf y : (length y mod 16 = 0)%nat -> bytes_ok y = true -> Forall wf (chunk 16 y).
Proof.
  intros Hm Hb. unfold chunk.
  pose proof (chunks_all16 (length y) y (le_n _) Hm) as H1.
  pose proof (chunks_bytes_ok (length y) y Hb) as H2.
  unfold all16 in H1. rewrite Forall_forall in *. intros b Hin. split; [apply H1 | apply H2]; exact Hin.
Qed.

Lemma wf_all16 cs : Forall wf cs -> all16 cs.
Proof. unfold all16. intros H. eapply Forall_impl; [|exact H]. intros a [Ha _]. exact Ha. Qed.

Lemma raw_roundtrip k iv y : key_ok k -> wf iv -> (length y mod 16 = 0)%nat -> bytes_ok y = true ->
  cbc_encrypt_raw cipher k iv y = cbc_encrypt_raw E' k iv y /\
  cbc_decrypt_raw inv_cipher k iv (cbc_encrypt_raw cipher k iv y) = y.
Proof.
  intros Hk Hiv Hm Hb. unfold cbc_encrypt_raw, cbc_decrypt_raw.
  destruct (enc_blocks_eq k Hk (chunk 16 y) iv (chunk_wf y Hm Hb) Hiv) as [He Hw].
  split; [rewrite He; reflexivity|].
  rewrite chunk_concat by (apply wf_all16; exact Hw).
  rewrite <- (dec_blocks_eq k Hk _ iv Hw), <- He.
  pose proof (key_unwrap_sec E' D' DE' Elen') as _.
  pose proof (cbc_raw_roundtrip E' D' DE' Elen' k iv y (proj1 Hiv) Hm) as R.
  unfold cbc_encrypt_raw, cbc_decrypt_raw in R.
  rewrite chunk_concat in R; [exact R|].
  apply wf_all16. rewrite He. exact Hw.
Qed.

Lemma pkcs7_pad_bytes_ok x : bytes_ok x = true -> bytes_ok (pkcs7_pad x) = true.
Proof.
  intros H. unfold pkcs7_pad, bytes_ok in *. rewrite forallb_app, H. cbn [andb].
  apply forallb_forall. intros b Hb. apply repeat_spec in Hb. subst b.
  unfold byte_ok. apply N.ltb_lt. pose proof (pad_len_range x). lia.
Qed.

(** AES-CBC with PKCS#7 padding decrypts back to the input: every data length, 128/256-bit keys *)
Theorem aes_cbc_pkcs7_roundtrip k iv x : key_ok k -> wf iv -> bytes_ok x = true ->
  cbc_decrypt inv_cipher k iv (cbc_encrypt cipher k iv x) = Some x.
Proof.
  intros Hk Hiv Hx. unfold cbc_decrypt, cbc_encrypt.
  pose proof (pkcs7_pad_length x) as Hm. pose proof (pkcs7_pad_bytes_ok x Hx) as Hb.
  destruct (raw_roundtrip k iv (pkcs7_pad x) Hk Hiv Hm Hb) as [He Hr].
  rewrite Hr. rewrite He.
  rewrite (enc_raw_length_mod E' Elen' k iv (pkcs7_pad x) (proj1 Hiv) Hm). cbn [Nat.eqb].
  apply pkcs7_unpad_pad_thm.
Qed.

(** R5/R6: UE / OE unwrap to the file key *)
Theorem aes_key_unwrap k fkey : key_ok k -> (length fkey mod 16 = 0)%nat -> bytes_ok fkey = true ->
  cbc_decrypt_raw inv_cipher k zero_iv (cbc_encrypt_raw cipher k zero_iv fkey) = fkey.
Proof.
  intros Hk Hm Hb. apply raw_roundtrip; try assumption. split; reflexivity.
Qed.

(** Perms entry: Algorithm 13 reads back what Algorithm 10 wrote *)
Lemma le_bytes_ok n : forall w, bytes_ok (le_bytes n w) = true.
Proof.
  induction n as [|n IH]; intros w; [reflexivity|]. cbn [le_bytes]. apply bytes_ok_forall. constructor.
  - unfold m8. change 255 with (N.ones 8). rewrite N.land_ones. apply N.mod_lt. discriminate.
  - apply bytes_ok_forall. apply IH.
Qed.

Theorem aes_perms_roundtrip k P em rnd : key_ok k -> length rnd = 4%nat -> bytes_ok rnd = true ->
  alg13_plain (alg10 P em rnd k) k = perms_plain P em rnd.
Proof.
  intros Hk Hr Hb. unfold alg13_plain, alg10.
  assert (Hw : wf (perms_plain P em rnd)).
  { destruct rnd as [|r0 [|r1 [|r2 [|r3 [|]]]]]; try discriminate.
    split; [reflexivity|]. unfold perms_plain, bytes_ok in *. rewrite !forallb_app.
    fold (bytes_ok (le_bytes 4 P)). rewrite le_bytes_ok. cbn [firstn]. rewrite Hb.
    destruct em; reflexivity. }
  rewrite (ecb_single cipher) by (exact (proj1 Hw)).
  rewrite (ecb_single inv_cipher) by (exact (proj1 (cipher_wf k _ Hk Hw))).
  apply aes_inv; assumption.
Qed.
