(** C23 — RC4 as published (KSA / PRGA over a 256-entry permutation vector).
    Written from the algorithm description, not from rc4.rs. *)
From Coq Require Import FMapPositive.
From OxVerif Require Import Base.Util C23.Tab.

(** The 256-entry vector S is a finite map from indices to bytes (the standard library's
    [PositiveMap], key = index + 1); its array laws are [PositiveMap.gss]/[gso] below. *)
Definition vec := PositiveMap.t N.

Definition vget (s : vec) (i : N) : N :=
  match PositiveMap.find (N.succ_pos i) s with Some v => v | None => 0 end.
Definition vset (s : vec) (i v : N) : vec := PositiveMap.add (N.succ_pos i) v s.

Lemma vget_vset_same s i v : vget (vset s i v) i = v.
Proof. unfold vget, vset. now rewrite PositiveMap.gss. Qed.
Lemma vget_vset_other s i j v : i <> j -> vget (vset s i v) j = vget s j.
Proof.
  intro H. unfold vget, vset. rewrite PositiveMap.gso; auto.
  intro E. apply H. apply (f_equal Pos.pred_N) in E. now rewrite !N.pos_pred_succ in E.
Qed.

Definition vswap (s : vec) (i j : N) : vec :=
  let a := vget s i in let b := vget s j in vset (vset s i b) j a.

(** identity vector S[i] = i *)
Definition vident : vec := fold_left (fun s i => vset s i i) (nseq 256) (PositiveMap.empty N).

(** x mod 256, computed by masking *)
Definition m256 (x : N) : N := N.land x 255.
Lemma m256_mod x : m256 x = x mod 256.
Proof. unfold m256. change 255 with (N.ones 8). now rewrite N.land_ones. Qed.

Definition kget (key : list N) (i : N) : N := nth (N.to_nat i) key 0.

(** KSA:  for i = 0..255: S[i] := i;  j := 0;
          for i = 0..255: j := (j + S[i] + key[i mod keylength]) mod 256; swap(S[i],S[j]) *)
Definition ksa_step (key : list N) (sj : vec * N) (i : N) : vec * N :=
  let '(s, j) := sj in
  let j' := m256 (j + vget s i + kget key (i mod N.of_nat (length key))) in
  (vswap s i j', j').

Definition ksa (key : list N) : vec :=
  fst (fold_left (ksa_step key) (nseq 256) (vident, 0)).

(** PRGA: i := (i+1) mod 256; j := (j+S[i]) mod 256; swap(S[i],S[j]);
          output S[(S[i]+S[j]) mod 256] *)
Record gen := { gs : vec; gi : N; gj : N }.

Definition prga_step (g : gen) : gen * N :=
  let i := m256 (gi g + 1) in
  let j := m256 (gj g + vget (gs g) i) in
  let s := vswap (gs g) i j in
  ({| gs := s; gi := i; gj := j |}, vget s (m256 (vget s i + vget s j))).

Fixpoint keystream_from (g : gen) (n : nat) : list N :=
  match n with
  | O => []
  | S n' => let '(g', k) := prga_step g in k :: keystream_from g' n'
  end.

Definition keystream (key : list N) (n : nat) : list N :=
  keystream_from {| gs := ksa key; gi := 0; gj := 0 |} n.

(** encryption = decryption = xor with the keystream *)
Definition rc4 (key data : list N) : list N := xorl data (keystream key (length data)).

(** published vectors *)
(* RFC 6229, key 0x0102030405, offset 0 *)
Example rc4_rfc6229_40 :
  keystream (unhex "0102030405") 16 = unhex "b2396305f03dc027ccc3524a0a1118a8".
Proof. vm_compute. reflexivity. Qed.
(* RFC 6229, 128-bit key 0x0102…10, offset 0 *)
Example rc4_rfc6229_128 :
  keystream (unhex "0102030405060708090a0b0c0d0e0f10") 16 = unhex "9ac7cc9a609d1ef7b2932899cde41b97".
Proof. vm_compute. reflexivity. Qed.
(* classic: key "Key", plaintext "Plaintext" *)
Example rc4_key_plaintext :
  rc4 (bytes_of_string "Key") (bytes_of_string "Plaintext") = unhex "bbf316e8d940af0ad3".
Proof. vm_compute. reflexivity. Qed.
Example rc4_wiki_secret :
  rc4 (bytes_of_string "Secret") (bytes_of_string "Attack at dawn") = unhex "45a01f645fc35b383552544b9bf5".
Proof. vm_compute. reflexivity. Qed.
