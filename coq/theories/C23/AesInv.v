(** C23 — AES: InvCipher inverts Cipher (FIPS-197 5.3), for every well-formed round-key list and
    for the round keys of every 16- or 32-byte key.  S-box inverse by a 256-case sweep, ShiftRows
    structurally, MixColumns by GF(2)-linearity of the byte maps (65 536-case sweeps) and the sixteen
    coefficient identities of InvMix x Mix = I (256-case sweeps). *)
From OxVerif Require Import Base.Util C23.Tab C23.Aes.
From AAC_tactics Require Import AAC.
Open Scope N_scope.

#[local] Instance lxor_A : Associative eq N.lxor.
Proof. intros a b c. symmetry. apply N.lxor_assoc. Qed.
#[local] Instance lxor_C : Commutative eq N.lxor.
Proof. intros a b. apply N.lxor_comm. Qed.
#[local] Instance lxor_U : Unit eq N.lxor 0.
Proof. constructor; intros; [apply N.lxor_0_l | apply N.lxor_0_r]. Qed.

(** * sweeps *)
Definition pairs_ok (p : N -> N -> bool) : bool := allb (fun a => allb (fun b => p a b) 256) 256.
Lemma pairs_ok_spec p : pairs_ok p = true -> forall a b, a < 256 -> b < 256 -> p a b = true.
Proof.
  intros H a b Ha Hb. unfold pairs_ok in H.
  pose proof (allb_spec _ _ H a Ha) as H1. cbv beta in H1. exact (allb_spec _ _ H1 b Hb).
Qed.

Lemma lxor_bound a b : a < 256 -> b < 256 -> N.lxor a b < 256.
Proof.
  intros Ha Hb.
  assert (H : pairs_ok (fun a b => N.lxor a b <? 256) = true) by (vm_compute; reflexivity).
  apply N.ltb_lt. exact (pairs_ok_spec _ H a b Ha Hb).
Qed.

Lemma xtime_bound a : a < 256 -> xtime a < 256.
Proof.
  intros Ha. assert (H : allb (fun a => xtime a <? 256) 256 = true) by (vm_compute; reflexivity).
  apply N.ltb_lt. exact (allb_spec _ _ H a Ha).
Qed.

Lemma x3_bound a : a < 256 -> x3 a < 256.
Proof.
  intros Ha. assert (H : allb (fun a => x3 a <? 256) 256 = true) by (vm_compute; reflexivity).
  apply N.ltb_lt. exact (allb_spec _ _ H a Ha).
Qed.

Lemma m9_bound a : a < 256 -> m9 a < 256.
Proof.
  intros Ha. assert (H : allb (fun a => m9 a <? 256) 256 = true) by (vm_compute; reflexivity).
  apply N.ltb_lt. exact (allb_spec _ _ H a Ha).
Qed.

Lemma m11_bound a : a < 256 -> m11 a < 256.
Proof.
  intros Ha. assert (H : allb (fun a => m11 a <? 256) 256 = true) by (vm_compute; reflexivity).
  apply N.ltb_lt. exact (allb_spec _ _ H a Ha).
Qed.

Lemma m13_bound a : a < 256 -> m13 a < 256.
Proof.
  intros Ha. assert (H : allb (fun a => m13 a <? 256) 256 = true) by (vm_compute; reflexivity).
  apply N.ltb_lt. exact (allb_spec _ _ H a Ha).
Qed.

Lemma m14_bound a : a < 256 -> m14 a < 256.
Proof.
  intros Ha. assert (H : allb (fun a => m14 a <? 256) 256 = true) by (vm_compute; reflexivity).
  apply N.ltb_lt. exact (allb_spec _ _ H a Ha).
Qed.

Lemma sbox_bound a : a < 256 -> sbox a < 256.
Proof.
  intros Ha. assert (H : allb (fun a => sbox a <? 256) 256 = true) by (vm_compute; reflexivity).
  apply N.ltb_lt. exact (allb_spec _ _ H a Ha).
Qed.

Lemma inv_sbox_bound a : a < 256 -> inv_sbox a < 256.
Proof.
  intros Ha. assert (H : allb (fun a => inv_sbox a <? 256) 256 = true) by (vm_compute; reflexivity).
  apply N.ltb_lt. exact (allb_spec _ _ H a Ha).
Qed.

Lemma xtime_lin a b : a < 256 -> b < 256 -> xtime (N.lxor a b) = N.lxor (xtime a) (xtime b).
Proof.
  intros Ha Hb.
  assert (H : pairs_ok (fun a b => xtime (N.lxor a b) =? N.lxor (xtime a) (xtime b)) = true) by (vm_compute; reflexivity).
  apply N.eqb_eq. exact (pairs_ok_spec _ H a b Ha Hb).
Qed.

Lemma x3_lin a b : a < 256 -> b < 256 -> x3 (N.lxor a b) = N.lxor (x3 a) (x3 b).
Proof.
  intros Ha Hb.
  assert (H : pairs_ok (fun a b => x3 (N.lxor a b) =? N.lxor (x3 a) (x3 b)) = true) by (vm_compute; reflexivity).
  apply N.eqb_eq. exact (pairs_ok_spec _ H a b Ha Hb).
Qed.

Lemma m9_lin a b : a < 256 -> b < 256 -> m9 (N.lxor a b) = N.lxor (m9 a) (m9 b).
Proof.
  intros Ha Hb.
  assert (H : pairs_ok (fun a b => m9 (N.lxor a b) =? N.lxor (m9 a) (m9 b)) = true) by (vm_compute; reflexivity).
  apply N.eqb_eq. exact (pairs_ok_spec _ H a b Ha Hb).
Qed.

Lemma m11_lin a b : a < 256 -> b < 256 -> m11 (N.lxor a b) = N.lxor (m11 a) (m11 b).
Proof.
  intros Ha Hb.
  assert (H : pairs_ok (fun a b => m11 (N.lxor a b) =? N.lxor (m11 a) (m11 b)) = true) by (vm_compute; reflexivity).
  apply N.eqb_eq. exact (pairs_ok_spec _ H a b Ha Hb).
Qed.

Lemma m13_lin a b : a < 256 -> b < 256 -> m13 (N.lxor a b) = N.lxor (m13 a) (m13 b).
Proof.
  intros Ha Hb.
  assert (H : pairs_ok (fun a b => m13 (N.lxor a b) =? N.lxor (m13 a) (m13 b)) = true) by (vm_compute; reflexivity).
  apply N.eqb_eq. exact (pairs_ok_spec _ H a b Ha Hb).
Qed.

Lemma m14_lin a b : a < 256 -> b < 256 -> m14 (N.lxor a b) = N.lxor (m14 a) (m14 b).
Proof.
  intros Ha Hb.
  assert (H : pairs_ok (fun a b => m14 (N.lxor a b) =? N.lxor (m14 a) (m14 b)) = true) by (vm_compute; reflexivity).
  apply N.eqb_eq. exact (pairs_ok_spec _ H a b Ha Hb).
Qed.

Ltac bnd := repeat first [ assumption | apply lxor_bound | apply xtime_bound | apply x3_bound
                             | apply m9_bound | apply m11_bound | apply m13_bound | apply m14_bound ].

Lemma lin4 (f : N -> N) :
  (forall a b, a < 256 -> b < 256 -> f (N.lxor a b) = N.lxor (f a) (f b)) ->
  forall p q r s, p < 256 -> q < 256 -> r < 256 -> s < 256 ->
  f (N.lxor (N.lxor p q) (N.lxor r s)) = N.lxor (N.lxor (f p) (f q)) (N.lxor (f r) (f s)).
Proof. intros L p q r s Hp Hq Hr Hs. rewrite !L by bnd. reflexivity. Qed.

Lemma sbox_inv b : b < 256 -> inv_sbox (sbox b) = b.
Proof.
  intros Hb. assert (H : allb (fun b => inv_sbox (sbox b) =? b) 256 = true) by (vm_compute; reflexivity).
  apply N.eqb_eq. exact (allb_spec _ _ H b Hb).
Qed.

(** * the sixteen coefficient identities of InvMixColumns x MixColumns = I *)

Lemma coef_00 a : a < 256 -> (N.lxor (N.lxor (m14 (xtime a)) (m11 a)) (N.lxor (m13 a) (m9 (x3 a)))) = a.
Proof.
  intros Ha. assert (H : allb (fun a => (N.lxor (N.lxor (m14 (xtime a)) (m11 a)) (N.lxor (m13 a) (m9 (x3 a)))) =? a) 256 = true) by (vm_compute; reflexivity).
  apply N.eqb_eq. exact (allb_spec _ _ H a Ha).
Qed.

Lemma coef_01 a : a < 256 -> (N.lxor (N.lxor (m14 (x3 a)) (m11 (xtime a))) (N.lxor (m13 a) (m9 a))) = 0.
Proof.
  intros Ha. assert (H : allb (fun a => (N.lxor (N.lxor (m14 (x3 a)) (m11 (xtime a))) (N.lxor (m13 a) (m9 a))) =? 0) 256 = true) by (vm_compute; reflexivity).
  apply N.eqb_eq. exact (allb_spec _ _ H a Ha).
Qed.

Lemma coef_02 a : a < 256 -> (N.lxor (N.lxor (m14 a) (m11 (x3 a))) (N.lxor (m13 (xtime a)) (m9 a))) = 0.
Proof.
  intros Ha. assert (H : allb (fun a => (N.lxor (N.lxor (m14 a) (m11 (x3 a))) (N.lxor (m13 (xtime a)) (m9 a))) =? 0) 256 = true) by (vm_compute; reflexivity).
  apply N.eqb_eq. exact (allb_spec _ _ H a Ha).
Qed.

Lemma coef_03 a : a < 256 -> (N.lxor (N.lxor (m14 a) (m11 a)) (N.lxor (m13 (x3 a)) (m9 (xtime a)))) = 0.
Proof.
  intros Ha. assert (H : allb (fun a => (N.lxor (N.lxor (m14 a) (m11 a)) (N.lxor (m13 (x3 a)) (m9 (xtime a)))) =? 0) 256 = true) by (vm_compute; reflexivity).
  apply N.eqb_eq. exact (allb_spec _ _ H a Ha).
Qed.

Lemma coef_10 a : a < 256 -> (N.lxor (N.lxor (m9 (xtime a)) (m14 a)) (N.lxor (m11 a) (m13 (x3 a)))) = 0.
Proof.
  intros Ha. assert (H : allb (fun a => (N.lxor (N.lxor (m9 (xtime a)) (m14 a)) (N.lxor (m11 a) (m13 (x3 a)))) =? 0) 256 = true) by (vm_compute; reflexivity).
  apply N.eqb_eq. exact (allb_spec _ _ H a Ha).
Qed.

Lemma coef_11 a : a < 256 -> (N.lxor (N.lxor (m9 (x3 a)) (m14 (xtime a))) (N.lxor (m11 a) (m13 a))) = a.
Proof.
  intros Ha. assert (H : allb (fun a => (N.lxor (N.lxor (m9 (x3 a)) (m14 (xtime a))) (N.lxor (m11 a) (m13 a))) =? a) 256 = true) by (vm_compute; reflexivity).
  apply N.eqb_eq. exact (allb_spec _ _ H a Ha).
Qed.

Lemma coef_12 a : a < 256 -> (N.lxor (N.lxor (m9 a) (m14 (x3 a))) (N.lxor (m11 (xtime a)) (m13 a))) = 0.
Proof.
  intros Ha. assert (H : allb (fun a => (N.lxor (N.lxor (m9 a) (m14 (x3 a))) (N.lxor (m11 (xtime a)) (m13 a))) =? 0) 256 = true) by (vm_compute; reflexivity).
  apply N.eqb_eq. exact (allb_spec _ _ H a Ha).
Qed.

Lemma coef_13 a : a < 256 -> (N.lxor (N.lxor (m9 a) (m14 a)) (N.lxor (m11 (x3 a)) (m13 (xtime a)))) = 0.
Proof.
  intros Ha. assert (H : allb (fun a => (N.lxor (N.lxor (m9 a) (m14 a)) (N.lxor (m11 (x3 a)) (m13 (xtime a)))) =? 0) 256 = true) by (vm_compute; reflexivity).
  apply N.eqb_eq. exact (allb_spec _ _ H a Ha).
Qed.

Lemma coef_20 a : a < 256 -> (N.lxor (N.lxor (m13 (xtime a)) (m9 a)) (N.lxor (m14 a) (m11 (x3 a)))) = 0.
Proof.
  intros Ha. assert (H : allb (fun a => (N.lxor (N.lxor (m13 (xtime a)) (m9 a)) (N.lxor (m14 a) (m11 (x3 a)))) =? 0) 256 = true) by (vm_compute; reflexivity).
  apply N.eqb_eq. exact (allb_spec _ _ H a Ha).
Qed.

Lemma coef_21 a : a < 256 -> (N.lxor (N.lxor (m13 (x3 a)) (m9 (xtime a))) (N.lxor (m14 a) (m11 a))) = 0.
Proof.
  intros Ha. assert (H : allb (fun a => (N.lxor (N.lxor (m13 (x3 a)) (m9 (xtime a))) (N.lxor (m14 a) (m11 a))) =? 0) 256 = true) by (vm_compute; reflexivity).
  apply N.eqb_eq. exact (allb_spec _ _ H a Ha).
Qed.

Lemma coef_22 a : a < 256 -> (N.lxor (N.lxor (m13 a) (m9 (x3 a))) (N.lxor (m14 (xtime a)) (m11 a))) = a.
Proof.
  intros Ha. assert (H : allb (fun a => (N.lxor (N.lxor (m13 a) (m9 (x3 a))) (N.lxor (m14 (xtime a)) (m11 a))) =? a) 256 = true) by (vm_compute; reflexivity).
  apply N.eqb_eq. exact (allb_spec _ _ H a Ha).
Qed.

Lemma coef_23 a : a < 256 -> (N.lxor (N.lxor (m13 a) (m9 a)) (N.lxor (m14 (x3 a)) (m11 (xtime a)))) = 0.
Proof.
  intros Ha. assert (H : allb (fun a => (N.lxor (N.lxor (m13 a) (m9 a)) (N.lxor (m14 (x3 a)) (m11 (xtime a)))) =? 0) 256 = true) by (vm_compute; reflexivity).
  apply N.eqb_eq. exact (allb_spec _ _ H a Ha).
Qed.

Lemma coef_30 a : a < 256 -> (N.lxor (N.lxor (m11 (xtime a)) (m13 a)) (N.lxor (m9 a) (m14 (x3 a)))) = 0.
Proof.
  intros Ha. assert (H : allb (fun a => (N.lxor (N.lxor (m11 (xtime a)) (m13 a)) (N.lxor (m9 a) (m14 (x3 a)))) =? 0) 256 = true) by (vm_compute; reflexivity).
  apply N.eqb_eq. exact (allb_spec _ _ H a Ha).
Qed.

Lemma coef_31 a : a < 256 -> (N.lxor (N.lxor (m11 (x3 a)) (m13 (xtime a))) (N.lxor (m9 a) (m14 a))) = 0.
Proof.
  intros Ha. assert (H : allb (fun a => (N.lxor (N.lxor (m11 (x3 a)) (m13 (xtime a))) (N.lxor (m9 a) (m14 a))) =? 0) 256 = true) by (vm_compute; reflexivity).
  apply N.eqb_eq. exact (allb_spec _ _ H a Ha).
Qed.

Lemma coef_32 a : a < 256 -> (N.lxor (N.lxor (m11 a) (m13 (x3 a))) (N.lxor (m9 (xtime a)) (m14 a))) = 0.
Proof.
  intros Ha. assert (H : allb (fun a => (N.lxor (N.lxor (m11 a) (m13 (x3 a))) (N.lxor (m9 (xtime a)) (m14 a))) =? 0) 256 = true) by (vm_compute; reflexivity).
  apply N.eqb_eq. exact (allb_spec _ _ H a Ha).
Qed.

Lemma coef_33 a : a < 256 -> (N.lxor (N.lxor (m11 a) (m13 a)) (N.lxor (m9 (x3 a)) (m14 (xtime a)))) = a.
Proof.
  intros Ha. assert (H : allb (fun a => (N.lxor (N.lxor (m11 a) (m13 a)) (N.lxor (m9 (x3 a)) (m14 (xtime a)))) =? a) 256 = true) by (vm_compute; reflexivity).
  apply N.eqb_eq. exact (allb_spec _ _ H a Ha).
Qed.

Lemma inv_mix_col_mix_col a0 a1 a2 a3 :
  a0 < 256 -> a1 < 256 -> a2 < 256 -> a3 < 256 ->
  inv_mix_col (nth 0 (mix_col a0 a1 a2 a3) 0) (nth 1 (mix_col a0 a1 a2 a3) 0)
              (nth 2 (mix_col a0 a1 a2 a3) 0) (nth 3 (mix_col a0 a1 a2 a3) 0) = [a0; a1; a2; a3].
Proof.
  intros H0 H1 H2 H3. unfold mix_col, inv_mix_col. cbn [nth].
  rewrite !(lin4 m14 m14_lin), !(lin4 m11 m11_lin), !(lin4 m13 m13_lin), !(lin4 m9 m9_lin) by bnd.
  f_equal; [|f_equal; [|f_equal; [|f_equal]]].

  - transitivity (N.lxor (N.lxor (N.lxor (N.lxor (m14 (xtime a0)) (m11 a0)) (N.lxor (m13 a0) (m9 (x3 a0)))) (N.lxor (N.lxor (m14 (x3 a1)) (m11 (xtime a1))) (N.lxor (m13 a1) (m9 a1)))) (N.lxor (N.lxor (N.lxor (m14 a2) (m11 (x3 a2))) (N.lxor (m13 (xtime a2)) (m9 a2))) (N.lxor (N.lxor (m14 a3) (m11 a3)) (N.lxor (m13 (x3 a3)) (m9 (xtime a3)))))); [aac_reflexivity|].
    rewrite (coef_00 a0 H0), (coef_01 a1 H1), (coef_02 a2 H2), (coef_03 a3 H3). cbn. rewrite ?N.lxor_0_r, ?N.lxor_0_l. reflexivity.

  - transitivity (N.lxor (N.lxor (N.lxor (N.lxor (m9 (xtime a0)) (m14 a0)) (N.lxor (m11 a0) (m13 (x3 a0)))) (N.lxor (N.lxor (m9 (x3 a1)) (m14 (xtime a1))) (N.lxor (m11 a1) (m13 a1)))) (N.lxor (N.lxor (N.lxor (m9 a2) (m14 (x3 a2))) (N.lxor (m11 (xtime a2)) (m13 a2))) (N.lxor (N.lxor (m9 a3) (m14 a3)) (N.lxor (m11 (x3 a3)) (m13 (xtime a3)))))); [aac_reflexivity|].
    rewrite (coef_10 a0 H0), (coef_11 a1 H1), (coef_12 a2 H2), (coef_13 a3 H3). cbn. rewrite ?N.lxor_0_r, ?N.lxor_0_l. reflexivity.

  - transitivity (N.lxor (N.lxor (N.lxor (N.lxor (m13 (xtime a0)) (m9 a0)) (N.lxor (m14 a0) (m11 (x3 a0)))) (N.lxor (N.lxor (m13 (x3 a1)) (m9 (xtime a1))) (N.lxor (m14 a1) (m11 a1)))) (N.lxor (N.lxor (N.lxor (m13 a2) (m9 (x3 a2))) (N.lxor (m14 (xtime a2)) (m11 a2))) (N.lxor (N.lxor (m13 a3) (m9 a3)) (N.lxor (m14 (x3 a3)) (m11 (xtime a3)))))); [aac_reflexivity|].
    rewrite (coef_20 a0 H0), (coef_21 a1 H1), (coef_22 a2 H2), (coef_23 a3 H3). cbn. rewrite ?N.lxor_0_r, ?N.lxor_0_l. reflexivity.

  - transitivity (N.lxor (N.lxor (N.lxor (N.lxor (m11 (xtime a0)) (m13 a0)) (N.lxor (m9 a0) (m14 (x3 a0)))) (N.lxor (N.lxor (m11 (x3 a1)) (m13 (xtime a1))) (N.lxor (m9 a1) (m14 a1)))) (N.lxor (N.lxor (N.lxor (m11 a2) (m13 (x3 a2))) (N.lxor (m9 (xtime a2)) (m14 a2))) (N.lxor (N.lxor (m11 a3) (m13 a3)) (N.lxor (m9 (x3 a3)) (m14 (xtime a3)))))); [aac_reflexivity|].
    rewrite (coef_30 a0 H0), (coef_31 a1 H1), (coef_32 a2 H2), (coef_33 a3 H3). cbn. rewrite ?N.lxor_0_r, ?N.lxor_0_l. reflexivity.

Qed.

(** * states *)
Definition wf (s : list N) : Prop := length s = 16%nat /\ bytes_ok s = true.

Lemma bytes_ok_forall s : bytes_ok s = true <-> Forall (fun b => b < 256) s.
Proof.
  unfold bytes_ok, byte_ok. rewrite forallb_forall, Forall_forall.
  split; intros H x Hx; specialize (H x Hx); [apply N.ltb_lt | apply N.ltb_lt]; exact H.
Qed.

Ltac destr16 s Hl :=
  do 16 (destruct s as [|? s]; [discriminate Hl|]); destruct s; [|discriminate Hl].

Lemma inv_shift_rows_shift_rows s : length s = 16%nat -> inv_shift_rows (shift_rows s) = s.
Proof. intros Hl. destr16 s Hl. reflexivity. Qed.

Lemma shift_rows_wf s : wf s -> wf (shift_rows s).
Proof.
  intros [Hl Hb]. destr16 s Hl. split; [reflexivity|].
  apply bytes_ok_forall in Hb. apply bytes_ok_forall. cbn [shift_rows].
  repeat match goal with H : Forall _ (_ :: _) |- _ => inversion H; clear H; subst end.
  repeat constructor; assumption.
Qed.

Lemma sub_bytes_wf s : wf s -> wf (sub_bytes s).
Proof.
  intros [Hl Hb]. split; [unfold sub_bytes; rewrite map_length; exact Hl|].
  apply bytes_ok_forall in Hb. apply bytes_ok_forall. unfold sub_bytes.
  apply Forall_map. eapply Forall_impl; [|exact Hb]. intros a Ha. apply sbox_bound. exact Ha.
Qed.

Lemma inv_sub_bytes_sub_bytes s : bytes_ok s = true -> inv_sub_bytes (sub_bytes s) = s.
Proof.
  intros Hb. apply bytes_ok_forall in Hb. unfold inv_sub_bytes, sub_bytes. rewrite map_map.
  induction Hb as [|a s Ha Hs IH]; [reflexivity|]. cbn [List.map]. rewrite sbox_inv by exact Ha. f_equal. exact IH.
Qed.

Lemma mix_col_nth a0 a1 a2 a3 :
  mix_col a0 a1 a2 a3 = [nth 0 (mix_col a0 a1 a2 a3) 0; nth 1 (mix_col a0 a1 a2 a3) 0;
                         nth 2 (mix_col a0 a1 a2 a3) 0; nth 3 (mix_col a0 a1 a2 a3) 0].
Proof. reflexivity. Qed.

Lemma inv_mix_columns_mix_columns s : wf s -> inv_mix_columns (mix_columns s) = s.
Proof.
  intros [Hl Hb]. destr16 s Hl. apply bytes_ok_forall in Hb.
  repeat match goal with H : Forall _ (_ :: _) |- _ => inversion H; clear H; subst end.
  unfold mix_columns, inv_mix_columns. cbn [cols].
  repeat (rewrite mix_col_nth; cbn [app cols]; rewrite inv_mix_col_mix_col by assumption).
  reflexivity.
Qed.

Lemma mix_col_bound a0 a1 a2 a3 :
  a0 < 256 -> a1 < 256 -> a2 < 256 -> a3 < 256 -> Forall (fun b => b < 256) (mix_col a0 a1 a2 a3).
Proof. intros. unfold mix_col. repeat constructor; bnd. Qed.

Lemma mix_columns_wf s : wf s -> wf (mix_columns s).
Proof.
  intros [Hl Hb]. destr16 s Hl. apply bytes_ok_forall in Hb.
  repeat match goal with H : Forall _ (_ :: _) |- _ => inversion H; clear H; subst end.
  split; [reflexivity|]. apply bytes_ok_forall. unfold mix_columns. cbn [cols].
  repeat (apply Forall_app; split; [apply mix_col_bound; assumption|]). constructor.
Qed.

Lemma xorl_bytes_ok a : forall b, bytes_ok a = true -> bytes_ok b = true -> bytes_ok (xorl a b) = true.
Proof.
  induction a as [|x a IH]; intros b Ha Hb; [reflexivity|].
  destruct b as [|y b]; [exact Ha|].
  cbn [xorl]. apply bytes_ok_forall in Ha, Hb. inversion Ha; inversion Hb; subst.
  apply bytes_ok_forall. constructor; [apply lxor_bound; assumption|].
  apply bytes_ok_forall. apply IH; apply bytes_ok_forall; assumption.
Qed.

Lemma ark_wf s rk : wf s -> wf rk -> wf (add_round_key s rk).
Proof.
  intros [Hl Hb] [Hl' Hb']. unfold add_round_key. split.
  - rewrite xorl_length. exact Hl.
  - apply xorl_bytes_ok; assumption.
Qed.

Lemma ark_invol s rk : wf s -> wf rk -> add_round_key (add_round_key s rk) rk = s.
Proof. intros [Hl _] [Hl' _]. unfold add_round_key. apply xorl_invol. lia. Qed.

Definition U (s : list N) := shift_rows (sub_bytes s).
Lemma U_wf s : wf s -> wf (U s).
Proof. intros H. apply shift_rows_wf, sub_bytes_wf, H. Qed.

Lemma undo_U s : wf s -> inv_sub_bytes (inv_shift_rows (U s)) = s.
Proof.
  intros [Hl Hb]. unfold U. rewrite inv_shift_rows_shift_rows.
  - apply inv_sub_bytes_sub_bytes. exact Hb.
  - unfold sub_bytes. rewrite map_length. exact Hl.
Qed.

(** * rounds *)
Lemma rounds_wf ks : Forall wf ks -> forall s, wf s -> wf (rounds s ks).
Proof.
  induction 1 as [|rk ks Hrk Hks IH]; intros s Hs; [exact Hs|].
  destruct ks as [|rk' ks'].
  - cbn [rounds]. apply ark_wf; [apply U_wf; exact Hs | exact Hrk].
  - change (rounds s (rk :: rk' :: ks')) with (rounds (add_round_key (mix_columns (U s)) rk) (rk' :: ks')).
    apply IH. apply ark_wf; [apply mix_columns_wf, U_wf, Hs | exact Hrk].
Qed.

Lemma inv_rounds_step s rk r P :
  inv_rounds s (rk :: r :: P) = inv_rounds (inv_mix_columns (add_round_key (inv_sub_bytes (inv_shift_rows s)) rk)) (r :: P).
Proof. reflexivity. Qed.

Lemma unwind ks : ks <> [] -> Forall wf ks ->
  forall s P, wf s -> P <> [] ->
  inv_rounds (add_round_key (rounds s ks) (last ks [])) (rev (removelast ks) ++ P) = inv_rounds (U s) P.
Proof.
  induction ks as [|rk ks IH]; intros Hne Hwf s P Hs HP; [congruence|].
  inversion Hwf as [|? ? Hrk Hks]; subst.
  destruct ks as [|rk' ks'].
  - cbn [rounds last removelast rev app]. rewrite ark_invol; [reflexivity | apply U_wf; exact Hs | exact Hrk].
  - change (rounds s (rk :: rk' :: ks')) with (rounds (add_round_key (mix_columns (U s)) rk) (rk' :: ks')).
    change (last (rk :: rk' :: ks') []) with (last (rk' :: ks') []).
    change (removelast (rk :: rk' :: ks')) with (rk :: removelast (rk' :: ks')).
    cbn [rev]. rewrite <- app_assoc.
    set (s' := add_round_key (mix_columns (U s)) rk).
    assert (Hs' : wf s') by (apply ark_wf; [apply mix_columns_wf, U_wf, Hs | exact Hrk]).
    rewrite (IH ltac:(discriminate) Hks s' ([rk] ++ P) Hs' ltac:(discriminate)).
    destruct P as [|r P]; [congruence|].
    cbn [app]. rewrite inv_rounds_step. rewrite (undo_U s' Hs').
    unfold s'. rewrite ark_invol; [| apply mix_columns_wf, U_wf, Hs | exact Hrk].
    rewrite inv_mix_columns_mix_columns by (apply U_wf; exact Hs). reflexivity.
Qed.

(** InvCipher inverts Cipher for every well-formed key schedule of at least two round keys *)
Theorem inv_cipher_rk_cipher_rk rks b :
  Forall wf rks -> (2 <= length rks)%nat -> wf b -> inv_cipher_rk rks (cipher_rk rks b) = b.
Proof.
  intros Hwf Hlen Hb. destruct rks as [|rk0 ks]; [cbn in Hlen; lia|].
  inversion Hwf as [|? ? Hrk0 Hks]; subst.
  assert (Hne : ks <> []) by (destruct ks; [cbn in Hlen; lia | discriminate]).
  unfold inv_cipher_rk, cipher_rk.
  assert (Hrev : rev (rk0 :: ks) = last ks [] :: rev (removelast ks) ++ [rk0]).
  { cbn [rev]. rewrite (app_removelast_last [] Hne) at 1. rewrite rev_app_distr. reflexivity. }
  rewrite Hrev.
  rewrite (unwind ks Hne Hks (add_round_key b rk0) [rk0] (ark_wf _ _ Hb Hrk0) ltac:(discriminate)).
  cbn [inv_rounds]. rewrite undo_U by (apply ark_wf; assumption).
  apply ark_invol; assumption.
Qed.

Theorem cipher_rk_wf rks b : Forall wf rks -> wf b -> wf (cipher_rk rks b).
Proof.
  intros Hwf Hb. destruct rks as [|rk0 ks]; [exact Hb|].
  inversion Hwf; subst. cbn [cipher_rk]. apply rounds_wf; [assumption | apply ark_wf; assumption].
Qed.

(** * the key schedule produces well-formed round keys *)
Definition wfw (w : list N) : Prop := length w = 4%nat /\ bytes_ok w = true.

Lemma wfw_xorl a b : wfw a -> wfw b -> wfw (xorl a b).
Proof. intros [La Ba] [Lb Bb]. split; [rewrite xorl_length; exact La | apply xorl_bytes_ok; assumption]. Qed.

Lemma wfw_sub_word w : wfw w -> wfw (sub_word w).
Proof.
  intros [L B]. split; [unfold sub_word; rewrite map_length; exact L|].
  apply bytes_ok_forall in B. apply bytes_ok_forall. unfold sub_word. apply Forall_map.
  eapply Forall_impl; [|exact B]. intros a Ha. apply sbox_bound. exact Ha.
Qed.

Lemma wfw_rot_word w : wfw w -> wfw (rot_word w).
Proof.
  intros [L B]. destruct w as [|a [|b [|c [|d [|]]]]]; try discriminate.
  split; [reflexivity|]. apply bytes_ok_forall in B. apply bytes_ok_forall. cbn [rot_word app].
  repeat match goal with H : Forall _ (_ :: _) |- _ => inversion H; clear H; subst end.
  repeat constructor; assumption.
Qed.

Lemma wfw_rcon rc : rc < 256 -> wfw [rc; 0; 0; 0].
Proof.
  intros H. split; [reflexivity|]. apply bytes_ok_forall.
  constructor; [exact H|]. constructor; [lia|]. constructor; [lia|]. constructor; [lia|]. constructor.
Qed.

Lemma nth_in_wfw ws k : Forall wfw ws -> (k < length ws)%nat -> wfw (nth k ws []).
Proof. intros H Hk. rewrite Forall_forall in H. apply H. apply nth_In. exact Hk. Qed.

Lemma expand_wf n : forall nk i rc ws,
  (1 <= nk)%nat -> rc < 256 -> Forall wfw ws -> (nk <= length ws)%nat ->
  Forall wfw (expand n nk i rc ws) /\ length (expand n nk i rc ws) = (length ws + n)%nat.
Proof.
  induction n as [|n IH]; intros nk i rc ws Hnk Hrc Hws Hlen; cbn [expand].
  - split; [exact Hws | lia].
  - assert (Hprev : wfw (hd [] ws)).
    { destruct ws as [|w ws']; [cbn in Hlen; lia|]. inversion Hws; assumption. }
    assert (Hback : wfw (nth (nk - 1) ws [])) by (apply nth_in_wfw; [exact Hws | lia]).
    set (br := if (i mod nk =? 0)%nat
               then (xorl (sub_word (rot_word (hd [] ws))) [rc; 0; 0; 0], xtime rc)
               else if (6 <? nk)%nat && (i mod nk =? 4)%nat then (sub_word (hd [] ws), rc)
               else (hd [] ws, rc)).
    assert (Hbr : wfw (fst br) /\ snd br < 256).
    { unfold br. destruct (i mod nk =? 0)%nat.
      - split; [apply wfw_xorl; [apply wfw_sub_word, wfw_rot_word, Hprev | apply wfw_rcon, Hrc] | apply xtime_bound, Hrc].
      - destruct ((6 <? nk)%nat && (i mod nk =? 4)%nat); split; try exact Hrc; [apply wfw_sub_word, Hprev | exact Hprev]. }
    destruct br as [temp rc'] eqn:Ebr. cbn [fst snd] in Hbr. destruct Hbr as [Htemp Hrc'].
    destruct (IH nk (S i) rc' (xorl (nth (nk - 1) ws []) temp :: ws)) as [I1 I2]; try assumption.
    + constructor; [apply wfw_xorl; assumption | exact Hws].
    + cbn [length]. lia.
    + split; [exact I1|]. rewrite I2. cbn [length]. lia.
Qed.

Fixpoint grp (n : nat) (l : list (list N)) : list (list (list N)) :=
  match n with O => [] | S n' => firstn 4 l :: grp n' (skipn 4 l) end.

Lemma round_keys_unfold key :
  round_keys key =
  List.map (@concat N)
    (grp (length key / 4 + 6 + 1)
       (rev (expand (4 * (length key / 4 + 6 + 1) - length key / 4) (length key / 4) (length key / 4) 1
               (rev (chunk 4 key))))).
Proof. reflexivity. Qed.

Lemma wf_concat4 a b c d : wfw a -> wfw b -> wfw c -> wfw d -> wf (concat [a; b; c; d]).
Proof.
  intros [La Ba] [Lb Bb] [Lc Bc] [Ld Bd]. cbn [concat]. rewrite app_nil_r. split.
  - rewrite !app_length. lia.
  - unfold bytes_ok in *. rewrite !forallb_app, Ba, Bb, Bc, Bd. reflexivity.
Qed.

Lemma grp_wf n : forall l, length l = (4 * n)%nat -> Forall wfw l ->
  Forall wf (List.map (@concat N) (grp n l)) /\ length (grp n l) = n.
Proof.
  induction n as [|n IH]; intros l Hl Hw; cbn [grp List.map]; [split; [constructor | reflexivity]|].
  destruct l as [|a [|b [|c [|d r]]]]; try (cbn in Hl; lia).
  cbn [firstn skipn]. inversion Hw as [|? ? Ha Hw1]; subst. inversion Hw1 as [|? ? Hb Hw2]; subst.
  inversion Hw2 as [|? ? Hc Hw3]; subst. inversion Hw3 as [|? ? Hd Hw4]; subst.
  destruct (IH r) as [I1 I2]; [cbn [length] in Hl; lia | exact Hw4 |].
  split; [constructor; [apply wf_concat4; assumption | exact I1] | cbn [length]; rewrite I2; reflexivity].
Qed.

Lemma Forall_rev_wfw l : Forall wfw l -> Forall wfw (rev l).
Proof. intros H. apply Forall_forall. intros x Hx. apply in_rev in Hx. rewrite Forall_forall in H. auto. Qed.

Definition key_ok (key : list N) : Prop := (length key = 16%nat \/ length key = 32%nat) /\ bytes_ok key = true.

Lemma chunk4_wf key : key_ok key ->
  Forall wfw (chunk 4 key) /\ length (chunk 4 key) = (length key / 4)%nat.
Proof.
  intros [[Hl|Hl] Hb]; apply bytes_ok_forall in Hb.
  - do 16 (destruct key as [|? key]; [discriminate Hl|]). destruct key; [|discriminate Hl].
    repeat match goal with H : Forall _ (_ :: _) |- _ => inversion H; clear H; subst end.
    split; [|reflexivity]. cbn.
    repeat (constructor; [split; [reflexivity | apply bytes_ok_forall; repeat constructor; assumption]|]).
    constructor.
  - do 32 (destruct key as [|? key]; [discriminate Hl|]). destruct key; [|discriminate Hl].
    repeat match goal with H : Forall _ (_ :: _) |- _ => inversion H; clear H; subst end.
    split; [|reflexivity]. cbn.
    repeat (constructor; [split; [reflexivity | apply bytes_ok_forall; repeat constructor; assumption]|]).
    constructor.
Qed.

Theorem round_keys_wf key : key_ok key ->
  Forall wf (round_keys key) /\ (2 <= length (round_keys key))%nat.
Proof.
  intros Hk. destruct (chunk4_wf key Hk) as [Hc Hcl].
  rewrite round_keys_unfold.
  set (nk := (length key / 4)%nat) in *.
  assert (Hnk : nk = 4%nat \/ nk = 8%nat).
  { destruct Hk as [[Hl|Hl] _]; unfold nk; rewrite Hl; [left | right]; reflexivity. }
  destruct (expand_wf (4 * (nk + 6 + 1) - nk) nk nk 1 (rev (chunk 4 key))) as [E1 E2].
  - lia.
  - lia.
  - apply Forall_rev_wfw. exact Hc.
  - rewrite rev_length, Hcl. lia.
  - rewrite rev_length, Hcl in E2.
    destruct (grp_wf (nk + 6 + 1) (rev (expand (4 * (nk + 6 + 1) - nk) nk nk 1 (rev (chunk 4 key))))) as [G1 G2].
    + rewrite rev_length, E2. lia.
    + apply Forall_rev_wfw. exact E1.
    + split; [exact G1|]. rewrite map_length, G2. lia.
Qed.

(** * FIPS-197: InvCipher inverts Cipher for 128- and 256-bit keys *)
Theorem aes_inv key b : key_ok key -> wf b -> inv_cipher key (cipher key b) = b.
Proof.
  intros Hk Hb. destruct (round_keys_wf key Hk) as [H1 H2].
  unfold inv_cipher, cipher. apply inv_cipher_rk_cipher_rk; assumption.
Qed.

Theorem cipher_wf key b : key_ok key -> wf b -> wf (cipher key b).
Proof.
  intros Hk Hb. destruct (round_keys_wf key Hk) as [H1 _]. unfold cipher. apply cipher_rk_wf; assumption.
Qed.
