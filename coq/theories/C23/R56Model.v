(** C23 — the remaining revision-5/6 functions of standard_security.rs (models) against
    Algorithms 8, 9, 12, 2.A of ISO 32000-2, and the UE / OE key round trips at the model level
    (compute_rN_ue_entry -> recover_encryption_key_rN and the owner pair) with FIPS-197 AES. *)
From OxVerif Require Import Base.Util C23.Tab C23.Sha2 C23.Aes C23.Cbc C23.SecHandler C23.Model C23.Proofs C23.AesInv C23.AesCbc C23.Alg2B.
Require Import Lia.
Open Scope N_scope.

(** * raw CBC keeps the length *)
Lemma enc_blocks_length (E : cipherfn) k : forall bs prev, length (cbc_enc_blocks E k prev bs) = length bs.
Proof. induction bs as [|b r IH]; intro prev; cbn [cbc_enc_blocks length]; auto. Qed.

Lemma all16_concat_length : forall bs, all16 bs -> length (concat bs) = (16 * length bs)%nat.
Proof.
  induction 1 as [|b r Hb _ IH]; [reflexivity|]. cbn [concat length]. rewrite app_length, Hb, IH. lia.
Qed.

Lemma aes_cbc_raw_shape k iv y : AesInv.key_ok k -> wf iv -> (length y mod 16 = 0)%nat -> bytes_ok y = true ->
  length (cbc_encrypt_raw cipher k iv y) = length y /\ bytes_ok (cbc_encrypt_raw cipher k iv y) = true.
Proof.
  intros Hk Hiv Hm Hb. unfold cbc_encrypt_raw.
  destruct (enc_blocks_eq k Hk (chunk 16 y) iv (chunk_wf y Hm Hb) Hiv) as [_ Hw].
  split; [|now apply concat_wf_ok].
  rewrite all16_concat_length by (now apply wf_all16). rewrite enc_blocks_length.
  pose proof (chunks_all16 (length y) y (le_n _) Hm) as Ha. fold (chunk 16 y) in Ha.
  pose proof (all16_concat_length _ Ha) as HC. unfold chunk in HC.
  rewrite concat_chunks in HC by apply le_n. unfold chunk. symmetry. exact HC.
Qed.

Lemma zero_iv_wf : wf zero_iv.
Proof. split; reflexivity. Qed.

Lemma hash56_key_ok R pw salt u : bytes_ok pw = true -> bytes_ok u = true -> (length u <= 48)%nat ->
  AesInv.key_ok (hash56 R pw salt u).
Proof.
  intros Hpw Hu Hul. split; [right; now apply hash56_length|].
  unfold hash56. destruct (R =? 5); [apply sha256_shape | now apply alg2b_length].
Qed.

Opaque sha256 sha384 sha512 cipher inv_cipher.

Section Inputs.
  Variables (R : N) (pw : list N).
  Hypothesis Hl : (length pw <= 127)%nat.
  Hypothesis Hpw : bytes_ok pw = true.

  Let hash_nil salt : m_hash56 R pw salt [] = Some (hash56 R pw salt []).
  Proof. apply hash56_model_eq_spec; auto; cbn; lia. Qed.
  Let hash_nil_len salt : length (hash56 R pw salt []) = 32%nat.
  Proof. apply hash56_length; auto; cbn; lia. Qed.
  Let hash_nil_key salt : AesInv.key_ok (hash56 R pw salt []).
  Proof. apply hash56_key_ok; auto; cbn; lia. Qed.

  (** compute_rN_ue_entry = Algorithm 8 (b) *)
  Theorem r56_ue_model_eq_spec_thm U fkey : length U = 48%nat -> length fkey = 32%nat ->
    m_r56_ue R pw U fkey = Some (alg8_UE R pw (slice 40 48 U) fkey).
  Proof.
    intros HU Hf. unfold m_r56_ue, alg8_UE. rewrite HU, Hf. cbn [Nat.eqb negb].
    rewrite hash_nil. cbn [obind]. rewrite firstn_all2 by (rewrite hash_nil_len; lia).
    unfold m_encrypt_cbc_raw. rewrite Hf. reflexivity.
  Qed.

  (** recover_encryption_key_rN (user) = Algorithm 2.A (user branch) *)
  Theorem r56_recover_user_model_eq_spec_thm U UE : (48 <= length U)%nat -> length UE = 32%nat ->
    m_r56_recover_user R pw U UE = Some (alg2a_user R pw U UE).
  Proof.
    intros HU Hf. unfold m_r56_recover_user, alg2a_user. rewrite Hf. cbn [Nat.eqb negb].
    replace (length U <? 48)%nat with false by (symmetry; apply Nat.ltb_ge; exact HU).
    rewrite hash_nil. cbn [obind]. rewrite firstn_all2 by (rewrite hash_nil_len; lia).
    unfold m_decrypt_cbc_raw. rewrite Hf. reflexivity.
  Qed.

  (** the file key wrapped into UE is recovered with the same password *)
  Theorem r56_user_key_roundtrip_thm U fkey :
    length U = 48%nat -> length fkey = 32%nat -> bytes_ok fkey = true ->
    exists UE, m_r56_ue R pw U fkey = Some UE /\ length UE = 32%nat
               /\ m_r56_recover_user R pw U UE = Some fkey.
  Proof.
    intros HU Hf Hfb. exists (alg8_UE R pw (slice 40 48 U) fkey).
    assert (Hm : (length fkey mod 16 = 0)%nat) by (rewrite Hf; reflexivity).
    destruct (aes_cbc_raw_shape (hash56 R pw (slice 40 48 U) []) zero_iv fkey
                (hash_nil_key _) zero_iv_wf Hm Hfb) as [HL _].
    split; [now apply r56_ue_model_eq_spec_thm|].
    split; [unfold alg8_UE; rewrite HL; exact Hf|].
    rewrite r56_recover_user_model_eq_spec_thm by (try lia; unfold alg8_UE; rewrite HL; exact Hf).
    unfold alg2a_user, alg8_UE. f_equal. apply aes_key_unwrap; auto.
  Qed.

  (** * owner side: the 48-byte U string enters the hash *)
  Variable U : list N.
  Hypothesis HUb : bytes_ok (firstn 48 U) = true.

  Let HUl : (length (firstn 48 U) <= 48)%nat.
  Proof. rewrite firstn_length. lia. Qed.
  Let hash_u salt : m_hash56 R pw salt (firstn 48 U) = Some (hash56 R pw salt (firstn 48 U)).
  Proof. apply hash56_model_eq_spec; auto. Qed.
  Let hash_u_len salt : length (hash56 R pw salt (firstn 48 U)) = 32%nat.
  Proof. apply hash56_length; auto. Qed.
  Let hash_u_key salt : AesInv.key_ok (hash56 R pw salt (firstn 48 U)).
  Proof. apply hash56_key_ok; auto. Qed.

  (** compute_rN_owner_hash = Algorithm 9 (a) *)
  Theorem r56_owner_hash_model_eq_spec_thm vsalt ksalt : length U = 48%nat ->
    m_r56_owner_hash R pw U vsalt ksalt = Some (alg9_O R pw vsalt ksalt U).
  Proof.
    intros HU. unfold m_r56_owner_hash, alg9_O. rewrite HU. cbn [Nat.eqb negb].
    rewrite <- (firstn_all2 (n := 48) U) at 1 by lia.
    rewrite hash_u. cbn [obind]. rewrite firstn_all2 by (rewrite hash_u_len; lia). reflexivity.
  Qed.

  (** validate_rN_owner_password = Algorithm 12 *)
  Theorem r56_validate_owner_model_eq_spec_thm O : (48 <= length O)%nat -> (48 <= length U)%nat ->
    m_r56_validate_owner R pw O U = Some (b2l (alg12 R pw O U)).
  Proof.
    intros HO HU. unfold m_r56_validate_owner, alg12.
    replace (length O <? 48)%nat with false by (symmetry; apply Nat.ltb_ge; exact HO).
    replace (length U <? 48)%nat with false by (symmetry; apply Nat.ltb_ge; exact HU).
    rewrite hash_u. cbn [obind]. rewrite firstn_all2 by (rewrite hash_u_len; lia). reflexivity.
  Qed.

  (** compute_rN_oe_entry = Algorithm 9 (b) *)
  Theorem r56_oe_model_eq_spec_thm O fkey : length O = 48%nat -> length U = 48%nat ->
    length fkey = 32%nat -> bytes_ok fkey = true ->
    m_r56_oe R pw O U fkey = Some (alg9_OE R pw (slice 40 48 O) U fkey).
  Proof.
    intros HO HU Hf Hfb. unfold m_r56_oe, alg9_OE. rewrite HO, HU, Hf. cbn [Nat.eqb negb].
    rewrite <- (firstn_all2 (n := 48) U) at 1 by lia.
    rewrite hash_u. cbn [obind]. rewrite firstn_all2 by (rewrite hash_u_len; lia).
    unfold m_encrypt_cbc_raw. rewrite Hf. cbn [length zero_iv repeat Nat.eqb negb Nat.modulo Nat.divmod fst snd Nat.sub obind].
    assert (Hm : (length fkey mod 16 = 0)%nat) by (rewrite Hf; reflexivity).
    destruct (aes_cbc_raw_shape (hash56 R pw (slice 40 48 O) (firstn 48 U)) zero_iv fkey
                (hash_u_key _) zero_iv_wf Hm Hfb) as [HL _].
    unfold zero_iv in HL. cbn [repeat] in HL.
    rewrite firstn_all2 by (rewrite HL; lia). reflexivity.
  Qed.

  (** recover_encryption_key_rN (owner) = Algorithm 2.A (owner branch) *)
  Theorem r56_recover_owner_model_eq_spec_thm O OE : (48 <= length O)%nat -> (48 <= length U)%nat ->
    length OE = 32%nat ->
    m_r56_recover_owner R pw O U OE = Some (alg2a_owner R pw O U OE).
  Proof.
    intros HO HU Hf. unfold m_r56_recover_owner, alg2a_owner.
    replace (length O <? 48)%nat with false by (symmetry; apply Nat.ltb_ge; exact HO).
    replace (length U <? 48)%nat with false by (symmetry; apply Nat.ltb_ge; exact HU).
    rewrite Hf. cbn [Nat.eqb negb].
    rewrite hash_u. cbn [obind]. rewrite firstn_all2 by (rewrite hash_u_len; lia).
    unfold m_decrypt_cbc_raw. rewrite Hf. reflexivity.
  Qed.

  Theorem r56_owner_key_roundtrip_thm O fkey :
    length O = 48%nat -> length U = 48%nat -> length fkey = 32%nat -> bytes_ok fkey = true ->
    exists OE, m_r56_oe R pw O U fkey = Some OE /\ length OE = 32%nat
               /\ m_r56_recover_owner R pw O U OE = Some fkey.
  Proof.
    intros HO HU Hf Hfb. exists (alg9_OE R pw (slice 40 48 O) U fkey).
    assert (Hm : (length fkey mod 16 = 0)%nat) by (rewrite Hf; reflexivity).
    destruct (aes_cbc_raw_shape (hash56 R pw (slice 40 48 O) (firstn 48 U)) zero_iv fkey
                (hash_u_key _) zero_iv_wf Hm Hfb) as [HL _].
    split; [now apply r56_oe_model_eq_spec_thm|].
    split; [unfold alg9_OE; rewrite HL; exact Hf|].
    rewrite r56_recover_owner_model_eq_spec_thm by (try lia; unfold alg9_OE; rewrite HL; exact Hf).
    unfold alg2a_owner, alg9_OE. f_equal. apply aes_key_unwrap; auto.
  Qed.

  (** owner authentication, sound and complete (Algorithm 12) *)
  Theorem r56_owner_auth_iff_thm O : (48 <= length O)%nat -> (48 <= length U)%nat ->
    (m_r56_validate_owner R pw O U = Some [1]
     <-> firstn 32 O = hash56 R pw (slice 32 40 O) (firstn 48 U)).
  Proof.
    intros HO HU. rewrite r56_validate_owner_model_eq_spec_thm by assumption.
    unfold alg12, b2l. split.
    - intro H. destruct (bytes_eqb _ _) eqn:E; [|discriminate].
      apply bytes_eqb_eq in E. symmetry. exact E.
    - intro H. rewrite H. replace (bytes_eqb _ _) with true; [reflexivity|].
      symmetry. apply bytes_eqb_eq. reflexivity.
  Qed.
End Inputs.

Transparent sha256 sha384 sha512 cipher inv_cipher.

(** the hypotheses are satisfiable (R5; R6 is exercised by the correspondence run) *)
Example r56_key_roundtrip_example :
  let pw := bytes_of_string "owner" in
  let U := map (fun j => (j * 5 + 1) mod 256) (nseq 48) in
  let O := map (fun j => (j * 3 + 2) mod 256) (nseq 48) in
  let fkey := map (fun j => (j * 11 + 7) mod 256) (nseq 32) in
  match m_r56_oe 5 pw O U fkey with
  | Some OE => m_r56_recover_owner 5 pw O U OE = Some fkey
  | None => False
  end.
Proof. vm_compute. reflexivity. Qed.
