(** C23 — small shared helpers: 256-entry lookup tries, word/byte conversions,
    byte-list xor, sequences.  Everything is executable under vm_compute. *)
From OxVerif Require Import Base.Util.

(** * sequences *)
Fixpoint nseq_from (i : N) (n : nat) : list N :=
  match n with O => [] | S n' => i :: nseq_from (N.succ i) n' end.
Definition nseq (n : nat) : list N := nseq_from 0 n.

Lemma nseq_from_length i n : length (nseq_from i n) = n.
Proof. revert i; induction n; intros; cbn; auto. Qed.

(** * lookup tries indexed by the bits of a byte, least significant bit first *)
Inductive tree := Lf (v : N) | Nd (l r : tree).

Fixpoint evens (l : list N) : list N :=
  match l with a :: _ :: r => a :: evens r | [a] => [a] | [] => [] end.
Fixpoint odds (l : list N) : list N :=
  match l with _ :: b :: r => b :: odds r | _ => [] end.

Fixpoint build (d : nat) (l : list N) : tree :=
  match d with
  | O => Lf (hd 0 l)
  | S d' => Nd (build d' (evens l)) (build d' (odds l))
  end.

Fixpoint leftmost (t : tree) : N :=
  match t with Lf v => v | Nd l _ => leftmost l end.

Fixpoint lookp (t : tree) (p : positive) : N :=
  match t with
  | Lf v => v
  | Nd l r =>
      match p with
      | xO p' => lookp l p'
      | xI p' => lookp r p'
      | xH => leftmost r
      end
  end.

Definition look (t : tree) (b : N) : N :=
  match b with N0 => leftmost t | Npos p => lookp t p end.

(** * 32/64-bit words as N *)
Definition m8 : N := 255.
Definition m32 : N := Eval vm_compute in N.ones 32.
Definition m64 : N := Eval vm_compute in N.ones 64.
Definition wrap32 (x : N) : N := N.land x m32.
Definition wrap64 (x : N) : N := N.land x m64.

Lemma wrap32_mod x : wrap32 x = x mod 2 ^ 32.
Proof. unfold wrap32. change m32 with (N.ones 32). apply N.land_ones. Qed.
Lemma wrap64_mod x : wrap64 x = x mod 2 ^ 64.
Proof. unfold wrap64. change m64 with (N.ones 64). apply N.land_ones. Qed.

Definition add32 (a b : N) : N := wrap32 (a + b).
Definition add64 (a b : N) : N := wrap64 (a + b).
Definition not32 (a : N) : N := N.lxor a m32.
Definition not64 (a : N) : N := N.lxor a m64.
Definition rotl32 (x n : N) : N := wrap32 (N.lor (N.shiftl x n) (N.shiftr x (32 - n))).
Definition rotr32 (x n : N) : N := wrap32 (N.lor (N.shiftr x n) (N.shiftl x (32 - n))).
Definition rotr64 (x n : N) : N := wrap64 (N.lor (N.shiftr x n) (N.shiftl x (64 - n))).

Definition byte_at (w k : N) : N := N.land (N.shiftr w (8 * k)) m8.

(** little-endian / big-endian byte strings of fixed width *)
Fixpoint le_bytes (n : nat) (w : N) : list N :=
  match n with O => [] | S n' => N.land w m8 :: le_bytes n' (N.shiftr w 8) end.
Definition be_bytes (n : nat) (w : N) : list N := rev (le_bytes n w).

Fixpoint le_word (l : list N) : N :=
  match l with [] => 0 | b :: r => N.lor b (N.shiftl (le_word r) 8) end.
Definition be_word (l : list N) : N := fold_left (fun acc b => N.lor (N.shiftl acc 8) b) l 0.

(** split a byte string into words of [k] bytes (length assumed a multiple of k) *)
Fixpoint chunks (fuel : nat) (k : nat) (l : list N) : list (list N) :=
  match fuel with
  | O => []
  | S f => match l with [] => [] | _ => firstn k l :: chunks f k (skipn k l) end
  end.
Definition chunk (k : nat) (l : list N) : list (list N) := chunks (length l) k l.

(** * byte-list xor (length of the first argument) *)
Fixpoint xorl (a b : list N) : list N :=
  match a, b with
  | x :: a', y :: b' => N.lxor x y :: xorl a' b'
  | _, _ => a
  end.

Definition xor_const (c : N) (l : list N) : list N := map (fun b => N.lxor b c) l.

Lemma xorl_length a : forall b, length (xorl a b) = length a.
Proof. induction a; destruct b; cbn; auto. Qed.

Lemma xorl_invol a : forall b, (length a <= length b)%nat -> xorl (xorl a b) b = a.
Proof.
  induction a as [|x a IH]; destruct b as [|y b]; cbn; intro H; auto; try lia.
  rewrite N.lxor_assoc, N.lxor_nilpotent, N.lxor_0_r. f_equal. apply IH. lia.
Qed.

Lemma xor_const_invol c l : xor_const c (xor_const c l) = l.
Proof.
  unfold xor_const. rewrite map_map. rewrite <- (map_id l) at 2. apply map_ext.
  intro. rewrite N.lxor_assoc, N.lxor_nilpotent. apply N.lxor_0_r.
Qed.

Lemma xor_const_length c l : length (xor_const c l) = length l.
Proof. apply map_length. Qed.

Definition take (n : nat) (l : list N) := firstn n l.
Definition drop (n : nat) (l : list N) := skipn n l.
Definition slice (a b : nat) (l : list N) := firstn (b - a) (skipn a l).

(** resize(n, 0) of Vec<u8> *)
Definition resize0 (n : nat) (l : list N) : list N :=
  firstn n l ++ repeat 0 (n - length l).

Fixpoint iter_n {A} (n : nat) (f : A -> A) (x : A) : A :=
  match n with O => x | S n' => iter_n n' f (f x) end.
