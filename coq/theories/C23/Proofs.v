(** C23 — proofs: RC4 model = spec and involution, PKCS#7 / CBC round trip over an abstract
    block cipher, Algorithm 7 inverts Algorithm 3, Perms entry round trip, model = spec for the
    R2-R4 orchestration outside the known deviation classes. *)
From OxVerif Require Import Base.Util C23.Tab C23.Rc4 C23.Md5 C23.Sha2 C23.Aes C23.Cbc C23.SecHandler C23.Model.
Require Import Lia.

(** * RC4 *)
Lemma keystream_from_length n : forall g, length (keystream_from g n) = n.
Proof.
  induction n; intro g; cbn [keystream_from]; auto.
  destruct (prga_step g) as [g' k]. cbn. now rewrite IHn.
Qed.

Lemma rc4_length key data : length (rc4 key data) = length data.
Proof. unfold rc4. apply xorl_length. Qed.

(** decrypt ∘ encrypt = id: both xor the same keystream (any key the spec is defined on) *)
Lemma rc4_involutive_spec key data : rc4 key (rc4 key data) = data.
Proof.
  unfold rc4 at 1. rewrite rc4_length. unfold rc4.
  apply xorl_invol. unfold keystream. rewrite keystream_from_length. lia.
Qed.

Lemma m_ksa_loop_spec key : forall n s i j,
  m_ksa_loop n key (N.of_nat (length key)) s i j
  = fst (fold_left (ksa_step key) (nseq_from i n) (s, j)).
Proof.
  induction n; intros s i j; cbn [m_ksa_loop nseq_from fold_left]; auto.
  rewrite IHn. unfold ksa_step at 3. now rewrite N.add_1_r.
Qed.

Lemma rc4_process_spec : forall data s i j,
  snd (rc4_process {| st_s := s; st_i := i; st_j := j |} data)
  = xorl data (keystream_from {| gs := s; gi := i; gj := j |} (length data)).
Proof.
  induction data as [|b r IH]; intros s i j; auto.
  cbn [rc4_process length keystream_from st_s st_i st_j].
  unfold prga_step. cbn [gs gi gj].
  specialize (IH (vswap s (m256 (i + 1)) (m256 (j + vget s (m256 (i + 1))))) (m256 (i + 1))
                 (m256 (j + vget s (m256 (i + 1))))).
  destruct (rc4_process _ r) as [st' out]. cbn [snd] in *. cbn [xorl]. now rewrite IH.
Qed.

Theorem rc4_model_eq_spec_thm key data : key <> [] -> m_rc4 key data = Some (rc4 key data).
Proof.
  intro Hk. unfold m_rc4, rc4_new. destruct key as [|k0 kr]; [congruence|].
  rewrite rc4_process_spec. unfold rc4, keystream, ksa.
  rewrite m_ksa_loop_spec. reflexivity.
Qed.

Theorem rc4_involutive_thm key data :
  (1 <= length key <= 256)%nat ->
  exists c, m_rc4 key data = Some c /\ m_rc4 key c = Some data.
Proof.
  intro H. assert (key <> []) by (destruct key; cbn in H; [lia|congruence]).
  exists (rc4 key data). split; [now apply rc4_model_eq_spec_thm|].
  rewrite rc4_model_eq_spec_thm by assumption. now rewrite rc4_involutive_spec.
Qed.

Lemma rc4_empty_key_refuted_thm : exists d, m_rc4 [] d = None.
Proof. exists [1]. reflexivity. Qed.

(** * PKCS#7 *)
Lemma pad_len_range x : (1 <= pad_len x <= 16)%nat.
Proof. unfold pad_len. pose proof (Nat.mod_upper_bound (length x) 16). lia. Qed.

Lemma rev_repeat {A} (a : A) n : rev (repeat a n) = repeat a n.
Proof.
  induction n; cbn; auto. rewrite IHn. clear IHn.
  induction n; cbn; auto. now rewrite IHn.
Qed.

Lemma forallb_repeat_eqb p n : forallb (N.eqb p) (repeat p n) = true.
Proof. induction n; cbn; auto. now rewrite N.eqb_refl. Qed.

Theorem pkcs7_unpad_pad_thm x : pkcs7_unpad (pkcs7_pad x) = Some x.
Proof.
  unfold pkcs7_unpad, pkcs7_pad. pose proof (pad_len_range x) as Hr.
  set (n := pad_len x) in *.
  assert (Hrev : exists t, rev (x ++ repeat (N.of_nat n) n) = N.of_nat n :: t).
  { rewrite rev_app_distr, rev_repeat. destruct n; [lia|]. cbn. eauto. }
  destruct Hrev as [t ->].
  rewrite Nat2N.id. rewrite app_length, repeat_length.
  replace (length x + n - n)%nat with (length x) by lia.
  rewrite skipn_app, skipn_all, Nat.sub_diag. cbn [skipn app].
  rewrite firstn_app, firstn_all, Nat.sub_diag. cbn [firstn]. rewrite app_nil_r.
  rewrite forallb_repeat_eqb.
  replace ((1 <=? n)%nat) with true by (symmetry; apply Nat.leb_le; lia).
  replace ((n <=? 16)%nat) with true by (symmetry; apply Nat.leb_le; lia).
  replace ((n <=? length x + n)%nat) with true by (symmetry; apply Nat.leb_le; lia).
  reflexivity.
Qed.

Lemma pkcs7_pad_length x : (length (pkcs7_pad x) mod 16 = 0)%nat.
Proof.
  unfold pkcs7_pad. rewrite app_length, repeat_length. unfold pad_len.
  pose proof (Nat.div_mod (length x) 16). pose proof (Nat.mod_upper_bound (length x) 16).
  replace (length x + (16 - length x mod 16))%nat with ((length x / 16 + 1) * 16)%nat by lia.
  apply Nat.mod_mul. lia.
Qed.

(** * chunking *)
Definition all16 (bs : list (list N)) : Prop := Forall (fun b => length b = 16%nat) bs.

Lemma chunks_concat : forall bs fuel, all16 bs -> (length (concat bs) <= fuel)%nat ->
  chunks fuel 16 (concat bs) = bs.
Proof.
  induction bs as [|b r IH]; intros fuel H Hf.
  - destruct fuel; reflexivity.
  - inversion H as [|? ? Hb Hr]; subst. cbn [concat] in *. rewrite app_length in Hf.
    destruct fuel as [|f]; [lia|]. cbn [chunks].
    destruct b as [|b0 b']; [discriminate|]. cbn [app].
    change (b0 :: b' ++ concat r) with ((b0 :: b') ++ concat r).
    rewrite firstn_app, skipn_app, Hb, Nat.sub_diag, firstn_all2, skipn_all2 by lia.
    cbn [firstn skipn app]. rewrite app_nil_r. f_equal. apply IH; auto. lia.
Qed.

Lemma chunk_concat bs : all16 bs -> chunk 16 (concat bs) = bs.
Proof. intro H. unfold chunk. apply chunks_concat; auto. Qed.

Lemma concat_chunks : forall fuel l, (length l <= fuel)%nat -> concat (chunks fuel 16 l) = l.
Proof.
  induction fuel; intros l H.
  - destruct l; [reflexivity|cbn in H; lia].
  - cbn [chunks]. destruct l as [|a l']; [reflexivity|].
    cbn [concat]. rewrite IHfuel. apply firstn_skipn.
    rewrite skipn_length. cbn [length] in *. lia.
Qed.

Lemma chunks_all16 : forall fuel l, (length l <= fuel)%nat -> (length l mod 16 = 0)%nat ->
  all16 (chunks fuel 16 l).
Proof.
  induction fuel; intros l H Hm; [constructor|].
  cbn [chunks]. destruct l as [|a l'] eqn:El; [constructor|]. rewrite <- El in *.
  assert (16 <= length l)%nat.
  { pose proof (Nat.div_mod (length l) 16). destruct (length l / 16)%nat eqn:E; [|lia].
    rewrite El in *. cbn [length] in *. lia. }
  constructor.
  - rewrite firstn_length. lia.
  - apply IHfuel; rewrite skipn_length; [lia|].
    pose proof (Nat.div_mod (length l) 16).
    replace (length l - 16)%nat with ((length l / 16 - 1) * 16)%nat by lia.
    apply Nat.mod_mul. lia.
Qed.

Lemma ecb_single (F : cipherfn) k b : length b = 16%nat -> ecb F k b = F k b.
Proof.
  intro H. unfold ecb, chunk. rewrite H.
  assert (Hc : chunks 16 16 b = [b]).
  { rewrite <- (app_nil_r b) at 1. change (b ++ []) with (concat [b]).
    apply chunks_concat. repeat constructor; auto. cbn. rewrite app_nil_r. lia. }
  rewrite Hc. cbn [map concat]. apply app_nil_r.
Qed.

(** * CBC + PKCS#7 over an abstract block cipher *)
Section BlockCipher.
  Variables E D : cipherfn.
  Hypothesis DE : forall k b, length b = 16%nat -> D k (E k b) = b.
  Hypothesis Elen : forall k b, length b = 16%nat -> length (E k b) = 16%nat.

  Lemma enc_blocks_all16 k : forall bs prev, all16 bs -> length prev = 16%nat ->
    all16 (cbc_enc_blocks E k prev bs).
  Proof.
    induction bs as [|b r IH]; intros prev H Hp; cbn; [constructor|].
    inversion H; subst. constructor.
    - apply Elen. now rewrite xorl_length.
    - apply IH; auto. apply Elen. now rewrite xorl_length.
  Qed.

  Lemma cbc_blocks_roundtrip k : forall bs prev, all16 bs -> length prev = 16%nat ->
    cbc_dec_blocks D k prev (cbc_enc_blocks E k prev bs) = bs.
  Proof.
    induction bs as [|b r IH]; intros prev H Hp; cbn; auto.
    inversion H; subst.
    rewrite DE by (now rewrite xorl_length). rewrite xorl_invol by lia.
    f_equal. apply IH; auto. apply Elen. now rewrite xorl_length.
  Qed.

  Lemma cbc_raw_roundtrip k iv x : length iv = 16%nat -> (length x mod 16 = 0)%nat ->
    cbc_decrypt_raw D k iv (cbc_encrypt_raw E k iv x) = x.
  Proof.
    intros Hiv Hx. unfold cbc_decrypt_raw, cbc_encrypt_raw.
    assert (Ha : all16 (chunk 16 x)) by (apply chunks_all16; auto).
    rewrite chunk_concat by (apply enc_blocks_all16; auto).
    rewrite cbc_blocks_roundtrip by auto. apply concat_chunks. auto.
  Qed.

  Lemma enc_raw_length_mod k iv x : length iv = 16%nat -> (length x mod 16 = 0)%nat ->
    (length (cbc_encrypt_raw E k iv x) mod 16 = 0)%nat.
  Proof.
    intros Hiv Hx. unfold cbc_encrypt_raw.
    assert (Ha : all16 (cbc_enc_blocks E k iv (chunk 16 x)))
      by (apply enc_blocks_all16; auto; apply chunks_all16; auto).
    induction Ha as [|b r Hb Hr IH]; [reflexivity|].
    cbn [concat]. rewrite app_length, Hb.
    rewrite <- Nat.add_mod_idemp_r, IH by lia. reflexivity.
  Qed.

  Theorem cbc_pkcs7_roundtrip_sec k iv x : length iv = 16%nat ->
    cbc_decrypt D k iv (cbc_encrypt E k iv x) = Some x.
  Proof.
    intro Hiv. unfold cbc_decrypt, cbc_encrypt.
    rewrite enc_raw_length_mod by (auto; apply pkcs7_pad_length). cbn [Nat.eqb].
    rewrite cbc_raw_roundtrip by (auto; apply pkcs7_pad_length).
    apply pkcs7_unpad_pad_thm.
  Qed.

  (** R5/R6 key wrapping: UE/OE unwrap to the file key (Algorithm 2.A inverts 8/9) *)
  Theorem key_unwrap_sec k fkey : (length fkey mod 16 = 0)%nat ->
    cbc_decrypt_raw D k zero_iv (cbc_encrypt_raw E k zero_iv fkey) = fkey.
  Proof. intro H. apply cbc_raw_roundtrip; auto. Qed.

  (** Perms entry: Algorithm 13 reads back what Algorithm 10 wrote *)
  Theorem perms_roundtrip_sec k P em rnd : length rnd = 4%nat ->
    let d := ecb D k (ecb E k (perms_plain P em rnd)) in
    firstn 4 d = le_bytes 4 P /\ slice 4 8 d = [255; 255; 255; 255] /\
    slice 9 12 d = [97; 100; 98] /\ nth 8 d 0 = (if em then 84 else 70) /\ skipn 12 d = rnd.
  Proof.
    intro Hr. destruct rnd as [|r0 [|r1 [|r2 [|r3 [|]]]]]; try discriminate.
    cbv zeta.
    assert (Hl : length (perms_plain P em [r0; r1; r2; r3]) = 16%nat) by reflexivity.
    rewrite (ecb_single E) by assumption.
    rewrite (ecb_single D) by (now apply Elen).
    rewrite DE by assumption.
    destruct em; cbn; repeat split; reflexivity.
  Qed.
End BlockCipher.

(** the section hypotheses are satisfiable: xor with the key is a (useless) block cipher *)
Example block_cipher_hyps_satisfiable :
  let X : cipherfn := fun k b => xorl b (k ++ repeat 0 16) in
  (forall k b, length b = 16%nat -> X k (X k b) = b) /\
  (forall k b, length b = 16%nat -> length (X k b) = 16%nat).
Proof.
  cbv zeta. split; intros k b H.
  - apply xorl_invol. rewrite app_length, repeat_length. lia.
  - now rewrite xorl_length.
Qed.

(** and the FIPS-197 functions do invert each other on the published vectors and on a sweep of
    structured blocks (the general statement [aes_inv] is NOT proved here) *)
Example aes_inverse_samples :
  forallb (fun i =>
    let k16 := map (fun j => (i * 7 + j * 13) mod 256) (nseq 16) in
    let k32 := map (fun j => (i * 11 + j * 5) mod 256) (nseq 32) in
    let b := map (fun j => (i * 29 + j * 31 + 1) mod 256) (nseq 16) in
    bytes_eqb (inv_cipher k16 (cipher k16 b)) b && bytes_eqb (inv_cipher k32 (cipher k32 b)) b)
    (nseq 64) = true.
Proof. vm_compute. reflexivity. Qed.

(** * Algorithm 7 inverts Algorithm 3 *)
Lemma xor_const_0 key : xor_const 0 key = key.
Proof. unfold xor_const. rewrite <- (map_id key) at 2. apply map_ext. intro. apply N.lxor_0_r. Qed.

Lemma fold_rev_invol {A B} (F : A -> B -> A) (HF : forall x i, F (F x i) i = x) :
  forall l x, fold_left F (rev l) (fold_left F l x) = x.
Proof.
  induction l as [|a l IH]; intro x; cbn; auto.
  rewrite fold_left_app. rewrite IH. cbn. apply HF.
Qed.

Definition Frc (key : list N) : list N -> N -> list N := fun acc i => rc4 (xor_const i key) acc.

Lemma Frc_invol key x i : Frc key (Frc key x i) i = x.
Proof. unfold Frc. apply rc4_involutive_spec. Qed.

Opaque rc4.
Lemma alg7_alg3_core key x :
  fold_left (fun acc i => rc4 (xor_const i key) acc) (rev (nseq 20)) (rc4_19 key (rc4 key x)) = x.
Proof.
  unfold rc4_19.
  change (fun acc i => rc4 (xor_const i key) acc) with (Frc key).
  assert (H0 : rc4 key x = Frc key x 0) by (unfold Frc; now rewrite xor_const_0).
  rewrite H0.
  change (nseq 20) with (0 :: nseq_from 1 19).
  pose proof (fold_rev_invol (Frc key) (Frc_invol key) (0 :: nseq_from 1 19) x) as HH.
  cbn [fold_left] in HH. exact HH.
Qed.
Transparent rc4.

Theorem owner_recovers_user_pad_thm R n owner user :
  owner <> [] -> alg7_user_pad R n owner (alg3 R n owner user) = pad32 user.
Proof.
  intro Ho. unfold alg7_user_pad, alg3, alg3_with, alg3_key.
  destruct owner as [|o0 orest]; [congruence|].
  destruct (3 <=? R).
  - apply alg7_alg3_core.
  - apply rc4_involutive_spec.
Qed.

Example owner_recovers_user_pad_example :
  alg7_user_pad 3 16 (bytes_of_string "owner") (alg3 3 16 (bytes_of_string "owner") (bytes_of_string "user"))
  = pad32 (bytes_of_string "user").
Proof. vm_compute. reflexivity. Qed.

(** consequently the owner password authenticates (Algorithm 7 accepts) whenever the U entry
    was made by Algorithm 4/5 from the same user password *)
Theorem owner_auth_complete_thm R n owner user O U P id em :
  owner <> [] -> O = alg3 R n owner user ->
  firstn (sig_len R) U = alg45_sig R n (pad32 user) O P id em ->
  alg7 R n owner U O P id em = true.
Proof.
  intros Ho HO HU. subst O. unfold alg7, alg6.
  rewrite owner_recovers_user_pad_thm by assumption. rewrite HU.
  apply bytes_eqb_eq. reflexivity.
Qed.

(** * model = spec for the R2-R4 orchestration *)
Lemma m_pad_password_eq pw : m_pad_password pw = pad32 pw.
Proof.
  unfold m_pad_password, pad32. rewrite firstn_app.
  destruct (Nat.le_gt_cases (length pw) 32) as [H|H].
  - rewrite Nat.min_l by lia. rewrite (firstn_all2 pw (n:=length pw)) by lia.
    rewrite (firstn_all2 pw (n:=32)) by lia. reflexivity.
  - rewrite Nat.min_r by lia. replace (32 - length pw)%nat with 0%nat by lia.
    replace (32 - 32)%nat with 0%nat by lia. reflexivity.
Qed.

Lemma md5_shape msg : exists b r, md5 msg = b :: r.
Proof.
  unfold md5. destruct (fold_left md5_block _ md5_init) as [[[a b] c] d].
  cbn [le_bytes app]. eauto.
Qed.

Lemma iter_n_out {A} (f : A -> A) : forall n x, iter_n (S n) f x = f (iter_n n f x).
Proof. induction n; intro x; [reflexivity|]. cbn [iter_n] in *. now rewrite <- IHn. Qed.

Lemma m_rc4'_eq key data : key <> [] -> m_rc4' key data = rc4 key data.
Proof. intro H. unfold m_rc4'. now rewrite rc4_model_eq_spec_thm. Qed.

Lemma m_xor_key_eq i key : m_xor_key i key = xor_const i key.
Proof. reflexivity. Qed.

Lemma xor_const_nonnil i key : key <> [] -> xor_const i key <> [].
Proof. destruct key; cbn; congruence. Qed.

Lemma fold_rc4_eq key (Hk : key <> []) : forall l x,
  fold_left (fun res i => m_rc4' (m_xor_key i key) res) l x
  = fold_left (fun acc i => rc4 (xor_const i key) acc) l x.
Proof.
  induction l; intro x; cbn [fold_left]; auto.
  rewrite m_rc4'_eq by (now apply xor_const_nonnil). apply IHl.
Qed.

Lemma firstn_md5_nonnil n msg : (1 <= n)%nat -> firstn n (md5 msg) <> [].
Proof. intro H. destruct (md5_shape msg) as (b & r & ->). destruct n; [lia|]. cbn. congruence. Qed.

(** outside the class "no owner password", compute_owner_hash is Algorithm 3 *)
Theorem owner_hash_model_eq_spec_thm R n owner user :
  (1 <= n)%nat -> owner <> [] -> m_compute_owner_hash R n owner user = alg3 R n owner user.
Proof.
  intros Hn Ho. unfold m_compute_owner_hash, alg3, alg3_with, alg3_key, alg3_key_of, md5_n, rc4_19.
  destruct owner as [|o0 orest]; [congruence|]. rewrite !m_pad_password_eq.
  destruct (3 <=? R).
  - assert (Hk : firstn n (iter_n 50 md5 (md5 (pad32 (o0 :: orest)))) <> []).
    { rewrite iter_n_out. now apply firstn_md5_nonnil. }
    rewrite fold_rc4_eq by assumption. now rewrite m_rc4'_eq by assumption.
  - apply m_rc4'_eq. now apply firstn_md5_nonnil.
Qed.

(** … and with no owner password it is not (known deviation) *)
Lemma owner_fallback_refuted_thm :
  exists user, m_compute_owner_hash 3 16 [] user <> alg3 3 16 [] user.
Proof. exists (bytes_of_string "user"). vm_compute. discriminate. Qed.

Theorem key_model_eq_spec_thm R n pw O P id :
  m_compute_key R n (m_pad_password pw) O P (Some id) true = alg2 R n pw O P id true.
Proof.
  unfold m_compute_key, alg2. rewrite m_pad_password_eq. cbn [negb]. rewrite andb_false_r.
  reflexivity.
Qed.

(* The U entry of the model is Algorithm 4/5 —
   Theorem user_hash_model_eq_spec : forall R n pw O P id, (1 <= n)%nat -> 2 <= R ->
     firstn (sig_len R) (m_compute_user_hash R n pw O P (Some id)) = alg45_sig R n pw O P id true.
   PROVED in UserHash.v (user_hash_model_eq_spec_thm), together with validate_user_password =
   Algorithm 6 and user_auth_sound/complete; model 2.B = spec 2.B is in Alg2B.v. *)

(** passwords made of printable ASCII are the same bytes in PDFDocEncoding and UTF-8 *)
Theorem pdfdoc_ascii_thm cps :
  Forall (fun c => 32 <= c <= 126) cps -> pdfdoc_encode cps = Some cps /\ utf8 cps = cps.
Proof.
  induction 1 as [|c r Hc Hr [IH1 IH2]]; [split; reflexivity|].
  cbn [pdfdoc_encode utf8 flat_map]. fold (utf8 r). rewrite IH1, IH2.
  unfold pdfdoc_char, utf8_char.
  replace (32 <=? c) with true by (symmetry; apply N.leb_le; lia).
  replace (c <=? 126) with true by (symmetry; apply N.leb_le; lia).
  replace (c <? 128) with true by (symmetry; apply N.ltb_lt; lia).
  split; reflexivity.
Qed.

Lemma pdfdoc_refuted_thm : exists cps b, pdfdoc_encode cps = Some b /\ b <> utf8 cps.
Proof. exists [233], [233]. split; [reflexivity|]. vm_compute. discriminate. Qed.

(** witness for the owner-authentication finding: for user password "" (so that O decrypts to the
    bare padding string) Algorithm 7 accepts the owner password; the library answers false
    (observed by the correspondence run, corpus/C23/owner_auth_empty_user.json) *)
Example owner_auth_witness :
  let owner := bytes_of_string "Z" in
  let O := alg3 3 16 owner [] in
  let key := alg2 3 16 [] O 4294963392 [] true in
  let U := rc4_19 key (rc4 key (md5 pad_string)) ++ repeat 0 16 in
  alg7 3 16 owner U O 4294963392 [] true = true.
Proof. vm_compute. reflexivity. Qed.
