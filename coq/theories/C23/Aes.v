(** C23 — AES per FIPS-197: GF(2^8) arithmetic, S-box from its definition (multiplicative
    inverse + affine map), key expansion for Nk = 4 / 8, Cipher and InvCipher.
    State = 16 bytes in input order (s[r,c] = in[r + 4c]). *)
From OxVerif Require Import Base.Util C23.Tab.

(** * GF(2^8), modulus x^8 + x^4 + x^3 + x + 1 *)
Definition xtime (b : N) : N :=
  let d := N.shiftl b 1 in if N.testbit b 7 then N.lxor (N.land d 255) 27 else d.

Fixpoint gmul_n (n : nat) (a b : N) : N :=
  match n with
  | O => 0
  | S n' => N.lxor (if N.odd b then a else 0) (gmul_n n' (xtime a) (N.shiftr b 1))
  end.
Definition gmul (a b : N) : N := gmul_n 8 a b.

(** b^254 = b^-1 (0 maps to 0), FIPS-197 4.2 / 5.1.1 *)
Definition gsq (a : N) := gmul a a.
Definition gf_inv (b : N) : N :=
  let b2 := gsq b in let b4 := gsq b2 in let b8 := gsq b4 in let b16 := gsq b8 in
  let b32 := gsq b16 in let b64 := gsq b32 in let b128 := gsq b64 in
  gmul b128 (gmul b64 (gmul b32 (gmul b16 (gmul b8 (gmul b4 b2))))).

Definition rotl8 (b n : N) : N := N.land (N.lor (N.shiftl b n) (N.shiftr b (8 - n))) 255.

(** affine transformation of 5.1.1 and its inverse (5.3.2) *)
Definition affine (b : N) : N :=
  N.lxor (N.lxor (N.lxor (N.lxor (N.lxor b (rotl8 b 1)) (rotl8 b 2)) (rotl8 b 3)) (rotl8 b 4)) 99.
Definition inv_affine (b : N) : N :=
  N.lxor (N.lxor (N.lxor (rotl8 b 1) (rotl8 b 3)) (rotl8 b 6)) 5.

Definition sbox_def (b : N) : N := affine (gf_inv b).
Definition inv_sbox_def (b : N) : N := gf_inv (inv_affine b).

Definition sbox_t : tree := Eval vm_compute in build 8 (map sbox_def (nseq 256)).
Definition inv_sbox_t : tree := Eval vm_compute in build 8 (map inv_sbox_def (nseq 256)).
Definition sbox (b : N) : N := look sbox_t b.
Definition inv_sbox (b : N) : N := look inv_sbox_t b.

(** the tables are the definitions; FIPS-197 Figure 7 spot values *)
Example sbox_table_is_def : forallb (fun b => sbox b =? sbox_def b) (nseq 256) = true.
Proof. vm_compute. reflexivity. Qed.
Example inv_sbox_table_is_def : forallb (fun b => inv_sbox b =? inv_sbox_def b) (nseq 256) = true.
Proof. vm_compute. reflexivity. Qed.
Example sbox_fig7 : map sbox [0; 1; 83; 255; 16] = [99; 124; 237; 22; 202].
Proof. vm_compute. reflexivity. Qed.
Example gmul_57_83 : gmul 87 131 = 193.   (* {57}·{83} = {c1}, FIPS-197 4.2 *)
Proof. vm_compute. reflexivity. Qed.
Example gmul_57_13 : gmul 87 19 = 254.    (* {57}·{13} = {fe}, FIPS-197 4.2.1 *)
Proof. vm_compute. reflexivity. Qed.

(** * round transformations *)
Definition sub_bytes (s : list N) : list N := map sbox s.
Definition inv_sub_bytes (s : list N) : list N := map inv_sbox s.

Definition shift_rows (s : list N) : list N :=
  match s with
  | [i0; i1; i2; i3; i4; i5; i6; i7; i8; i9; i10; i11; i12; i13; i14; i15] =>
      [i0; i5; i10; i15; i4; i9; i14; i3; i8; i13; i2; i7; i12; i1; i6; i11]
  | _ => s
  end.
Definition inv_shift_rows (s : list N) : list N :=
  match s with
  | [i0; i1; i2; i3; i4; i5; i6; i7; i8; i9; i10; i11; i12; i13; i14; i15] =>
      [i0; i13; i10; i7; i4; i1; i14; i11; i8; i5; i2; i15; i12; i9; i6; i3]
  | _ => s
  end.

Definition x3 (a : N) := N.lxor (xtime a) a.
Definition mix_col (a0 a1 a2 a3 : N) : list N :=
  [N.lxor (N.lxor (xtime a0) (x3 a1)) (N.lxor a2 a3);
   N.lxor (N.lxor a0 (xtime a1)) (N.lxor (x3 a2) a3);
   N.lxor (N.lxor a0 a1) (N.lxor (xtime a2) (x3 a3));
   N.lxor (N.lxor (x3 a0) a1) (N.lxor a2 (xtime a3))].

Definition m9 a := let a2 := xtime a in let a4 := xtime a2 in let a8 := xtime a4 in N.lxor a8 a.
Definition m11 a := let a2 := xtime a in let a4 := xtime a2 in let a8 := xtime a4 in N.lxor (N.lxor a8 a2) a.
Definition m13 a := let a2 := xtime a in let a4 := xtime a2 in let a8 := xtime a4 in N.lxor (N.lxor a8 a4) a.
Definition m14 a := let a2 := xtime a in let a4 := xtime a2 in let a8 := xtime a4 in N.lxor (N.lxor a8 a4) a2.
Definition inv_mix_col (a0 a1 a2 a3 : N) : list N :=
  [N.lxor (N.lxor (m14 a0) (m11 a1)) (N.lxor (m13 a2) (m9 a3));
   N.lxor (N.lxor (m9 a0) (m14 a1)) (N.lxor (m11 a2) (m13 a3));
   N.lxor (N.lxor (m13 a0) (m9 a1)) (N.lxor (m14 a2) (m11 a3));
   N.lxor (N.lxor (m11 a0) (m13 a1)) (N.lxor (m9 a2) (m14 a3))].

Example m_consts_are_gmul :
  forallb (fun a => (xtime a =? gmul a 2) && (x3 a =? gmul a 3) && (m9 a =? gmul a 9) &&
                    (m11 a =? gmul a 11) && (m13 a =? gmul a 13) && (m14 a =? gmul a 14)) (nseq 256) = true.
Proof. vm_compute. reflexivity. Qed.

Fixpoint cols (f : N -> N -> N -> N -> list N) (s : list N) : list N :=
  match s with
  | a0 :: a1 :: a2 :: a3 :: r => f a0 a1 a2 a3 ++ cols f r
  | _ => []
  end.
Definition mix_columns := cols mix_col.
Definition inv_mix_columns := cols inv_mix_col.

Definition add_round_key (s rk : list N) : list N := xorl s rk.

(** * key expansion (5.2); words are 4-byte lists; [ws] holds w[i-1], w[i-2], … *)
Definition sub_word (w : list N) := map sbox w.
Definition rot_word (w : list N) := match w with a :: r => r ++ [a] | [] => [] end.

Fixpoint expand (n : nat) (nk : nat) (i : nat) (rc : N) (ws : list (list N)) : list (list N) :=
  match n with
  | O => ws
  | S n' =>
      let prev := hd [] ws in
      let back := nth (nk - 1) ws [] in
      let '(temp, rc') :=
        if (i mod nk =? 0)%nat then (xorl (sub_word (rot_word prev)) [rc; 0; 0; 0], xtime rc)
        else if (6 <? nk)%nat && (i mod nk =? 4)%nat then (sub_word prev, rc)
        else (prev, rc) in
      expand n' nk (S i) rc' (xorl back temp :: ws)
  end.

(** round keys rk_0 … rk_Nr as 16-byte blocks *)
Definition round_keys (key : list N) : list (list N) :=
  let nk := (length key / 4)%nat in
  let nr := (nk + 6)%nat in
  let w0 := rev (chunk 4 key) in
  let ws := rev (expand (4 * (nr + 1) - nk) nk nk 1 w0) in
  map (@concat N)
    ((fix grp (n : nat) (l : list (list N)) : list (list (list N)) :=
        match n with O => [] | S n' => firstn 4 l :: grp n' (skipn 4 l) end) (nr + 1)%nat ws).

(** * Cipher (5.1) and InvCipher (5.3) over a list of round keys *)
Fixpoint rounds (s : list N) (rks : list (list N)) : list N :=
  match rks with
  | [] => s
  | [rk] => add_round_key (shift_rows (sub_bytes s)) rk
  | rk :: rest => rounds (add_round_key (mix_columns (shift_rows (sub_bytes s))) rk) rest
  end.
Definition cipher_rk (rks : list (list N)) (b : list N) : list N :=
  match rks with [] => b | rk0 :: rest => rounds (add_round_key b rk0) rest end.

(** [rks] reversed: rk_Nr first *)
Fixpoint inv_rounds (s : list N) (rks : list (list N)) : list N :=
  match rks with
  | [] => s
  | [rk0] => add_round_key (inv_sub_bytes (inv_shift_rows s)) rk0
  | rk :: rest => inv_rounds (inv_mix_columns (add_round_key (inv_sub_bytes (inv_shift_rows s)) rk)) rest
  end.
Definition inv_cipher_rk (rks : list (list N)) (b : list N) : list N :=
  match rev rks with [] => b | rkn :: rest => inv_rounds (add_round_key b rkn) rest end.

Definition cipher (key b : list N) : list N := cipher_rk (round_keys key) b.
Definition inv_cipher (key b : list N) : list N := inv_cipher_rk (round_keys key) b.

(** FIPS-197 Appendix A.1 (last expanded word), Appendix B and Appendix C.1 / C.3 *)
Example keyexp_128_last :
  last (round_keys (unhex "2b7e151628aed2a6abf7158809cf4f3c")) []
  = unhex "d014f9a8c9ee2589e13f0cc8b6630ca6".
Proof. vm_compute. reflexivity. Qed.
Example keyexp_256_last :
  last (round_keys (unhex "603deb1015ca71be2b73aef0857d77811f352c073b6108d72d9810a30914dff4")) []
  = unhex "fe4890d1e6188d0b046df344706c631e".
Proof. vm_compute. reflexivity. Qed.
Example aes_appendix_b :
  cipher (unhex "2b7e151628aed2a6abf7158809cf4f3c") (unhex "3243f6a8885a308d313198a2e0370734")
  = unhex "3925841d02dc09fbdc118597196a0b32".
Proof. vm_compute. reflexivity. Qed.
Example aes128_c1 :
  cipher (unhex "000102030405060708090a0b0c0d0e0f") (unhex "00112233445566778899aabbccddeeff")
  = unhex "69c4e0d86a7b0430d8cdb78070b4c55a".
Proof. vm_compute. reflexivity. Qed.
Example aes128_c1_inv :
  inv_cipher (unhex "000102030405060708090a0b0c0d0e0f") (unhex "69c4e0d86a7b0430d8cdb78070b4c55a")
  = unhex "00112233445566778899aabbccddeeff".
Proof. vm_compute. reflexivity. Qed.
Example aes256_c3 :
  cipher (unhex "000102030405060708090a0b0c0d0e0f101112131415161718191a1b1c1d1e1f")
         (unhex "00112233445566778899aabbccddeeff")
  = unhex "8ea2b7ca516745bfeafc49904b496089".
Proof. vm_compute. reflexivity. Qed.
Example aes256_c3_inv :
  inv_cipher (unhex "000102030405060708090a0b0c0d0e0f101112131415161718191a1b1c1d1e1f")
             (unhex "8ea2b7ca516745bfeafc49904b496089")
  = unhex "00112233445566778899aabbccddeeff".
Proof. vm_compute. reflexivity. Qed.
