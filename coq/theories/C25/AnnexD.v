(** C25 — ISO 32000-1 Annex D: the Latin-text encodings, transcribed from the standard BY CODE
    (Table D.2 columns STD / MAC / WIN, Table D.3 PDFDocEncoding; glyph names mapped to Unicode by
    the Adobe Glyph List).  Written by tools/c25_annexd.py, which never reads the library source and
    cross-checks the transcription against Python's cp1252 / mac_roman / latin-1 codecs.
    [Unc] = the annex assigns nothing to the code (or the cell is deliberately left open:
    the 15 Mac OS Roman additions of 9.6.6.4 that Table D.2 does not list), [Two a b] = footnoted
    duplicate codes (space/nbspace 0xA0 WIN, 0xCA MAC; hyphen/sfthyphen 0xAD WIN): either reading accepted.
    Documented difference from the codecs: MAC 0xDB: Annex D currency U+00A4, python mac_roman U+20AC. *)
From OxVerif Require Import Base.Util.

Inductive cell := Unc | One (cp : N) | Two (cp1 cp2 : N).

Definition annex_win : list cell := [
  Unc; Unc; Unc; Unc; Unc; Unc; Unc; Unc;
  Unc; Unc; Unc; Unc; Unc; Unc; Unc; Unc;
  Unc; Unc; Unc; Unc; Unc; Unc; Unc; Unc;
  Unc; Unc; Unc; Unc; Unc; Unc; Unc; Unc;
  One 32; One 33; One 34; One 35; One 36; One 37; One 38; One 39;
  One 40; One 41; One 42; One 43; One 44; One 45; One 46; One 47;
  One 48; One 49; One 50; One 51; One 52; One 53; One 54; One 55;
  One 56; One 57; One 58; One 59; One 60; One 61; One 62; One 63;
  One 64; One 65; One 66; One 67; One 68; One 69; One 70; One 71;
  One 72; One 73; One 74; One 75; One 76; One 77; One 78; One 79;
  One 80; One 81; One 82; One 83; One 84; One 85; One 86; One 87;
  One 88; One 89; One 90; One 91; One 92; One 93; One 94; One 95;
  One 96; One 97; One 98; One 99; One 100; One 101; One 102; One 103;
  One 104; One 105; One 106; One 107; One 108; One 109; One 110; One 111;
  One 112; One 113; One 114; One 115; One 116; One 117; One 118; One 119;
  One 120; One 121; One 122; One 123; One 124; One 125; One 126; Unc;
  One 8364; Unc; One 8218; One 402; One 8222; One 8230; One 8224; One 8225;
  One 710; One 8240; One 352; One 8249; One 338; Unc; One 381; Unc;
  Unc; One 8216; One 8217; One 8220; One 8221; One 8226; One 8211; One 8212;
  One 732; One 8482; One 353; One 8250; One 339; Unc; One 382; One 376;
  Two 160 32; One 161; One 162; One 163; One 164; One 165; One 166; One 167;
  One 168; One 169; One 170; One 171; One 172; Two 173 45; One 174; One 175;
  One 176; One 177; One 178; One 179; One 180; One 181; One 182; One 183;
  One 184; One 185; One 186; One 187; One 188; One 189; One 190; One 191;
  One 192; One 193; One 194; One 195; One 196; One 197; One 198; One 199;
  One 200; One 201; One 202; One 203; One 204; One 205; One 206; One 207;
  One 208; One 209; One 210; One 211; One 212; One 213; One 214; One 215;
  One 216; One 217; One 218; One 219; One 220; One 221; One 222; One 223;
  One 224; One 225; One 226; One 227; One 228; One 229; One 230; One 231;
  One 232; One 233; One 234; One 235; One 236; One 237; One 238; One 239;
  One 240; One 241; One 242; One 243; One 244; One 245; One 246; One 247;
  One 248; One 249; One 250; One 251; One 252; One 253; One 254; One 255
].

Definition annex_mac : list cell := [
  Unc; Unc; Unc; Unc; Unc; Unc; Unc; Unc;
  Unc; Unc; Unc; Unc; Unc; Unc; Unc; Unc;
  Unc; Unc; Unc; Unc; Unc; Unc; Unc; Unc;
  Unc; Unc; Unc; Unc; Unc; Unc; Unc; Unc;
  One 32; One 33; One 34; One 35; One 36; One 37; One 38; One 39;
  One 40; One 41; One 42; One 43; One 44; One 45; One 46; One 47;
  One 48; One 49; One 50; One 51; One 52; One 53; One 54; One 55;
  One 56; One 57; One 58; One 59; One 60; One 61; One 62; One 63;
  One 64; One 65; One 66; One 67; One 68; One 69; One 70; One 71;
  One 72; One 73; One 74; One 75; One 76; One 77; One 78; One 79;
  One 80; One 81; One 82; One 83; One 84; One 85; One 86; One 87;
  One 88; One 89; One 90; One 91; One 92; One 93; One 94; One 95;
  One 96; One 97; One 98; One 99; One 100; One 101; One 102; One 103;
  One 104; One 105; One 106; One 107; One 108; One 109; One 110; One 111;
  One 112; One 113; One 114; One 115; One 116; One 117; One 118; One 119;
  One 120; One 121; One 122; One 123; One 124; One 125; One 126; Unc;
  One 196; One 197; One 199; One 201; One 209; One 214; One 220; One 225;
  One 224; One 226; One 228; One 227; One 229; One 231; One 233; One 232;
  One 234; One 235; One 237; One 236; One 238; One 239; One 241; One 243;
  One 242; One 244; One 246; One 245; One 250; One 249; One 251; One 252;
  One 8224; One 176; One 162; One 163; One 167; One 8226; One 182; One 223;
  One 174; One 169; One 8482; One 180; One 168; Unc; One 198; One 216;
  Unc; One 177; Unc; Unc; One 165; One 181; Unc; Unc;
  Unc; Unc; Unc; One 170; One 186; Unc; One 230; One 248;
  One 191; One 161; One 172; Unc; One 402; Unc; Unc; One 171;
  One 187; One 8230; Two 160 32; One 192; One 195; One 213; One 338; One 339;
  One 8211; One 8212; One 8220; One 8221; One 8216; One 8217; One 247; Unc;
  One 255; One 376; One 8260; One 164; One 8249; One 8250; One 64257; One 64258;
  One 8225; One 183; One 8218; One 8222; One 8240; One 194; One 202; One 193;
  One 203; One 200; One 205; One 206; One 207; One 204; One 211; One 212;
  Unc; One 210; One 218; One 219; One 217; One 305; One 710; One 732;
  One 175; One 728; One 729; One 730; One 184; One 733; One 731; One 711
].

Definition annex_std : list cell := [
  Unc; Unc; Unc; Unc; Unc; Unc; Unc; Unc;
  Unc; Unc; Unc; Unc; Unc; Unc; Unc; Unc;
  Unc; Unc; Unc; Unc; Unc; Unc; Unc; Unc;
  Unc; Unc; Unc; Unc; Unc; Unc; Unc; Unc;
  One 32; One 33; One 34; One 35; One 36; One 37; One 38; One 8217;
  One 40; One 41; One 42; One 43; One 44; One 45; One 46; One 47;
  One 48; One 49; One 50; One 51; One 52; One 53; One 54; One 55;
  One 56; One 57; One 58; One 59; One 60; One 61; One 62; One 63;
  One 64; One 65; One 66; One 67; One 68; One 69; One 70; One 71;
  One 72; One 73; One 74; One 75; One 76; One 77; One 78; One 79;
  One 80; One 81; One 82; One 83; One 84; One 85; One 86; One 87;
  One 88; One 89; One 90; One 91; One 92; One 93; One 94; One 95;
  One 8216; One 97; One 98; One 99; One 100; One 101; One 102; One 103;
  One 104; One 105; One 106; One 107; One 108; One 109; One 110; One 111;
  One 112; One 113; One 114; One 115; One 116; One 117; One 118; One 119;
  One 120; One 121; One 122; One 123; One 124; One 125; One 126; Unc;
  Unc; Unc; Unc; Unc; Unc; Unc; Unc; Unc;
  Unc; Unc; Unc; Unc; Unc; Unc; Unc; Unc;
  Unc; Unc; Unc; Unc; Unc; Unc; Unc; Unc;
  Unc; Unc; Unc; Unc; Unc; Unc; Unc; Unc;
  Unc; One 161; One 162; One 163; One 8260; One 165; One 402; One 167;
  One 164; One 39; One 8220; One 171; One 8249; One 8250; One 64257; One 64258;
  Unc; One 8211; One 8224; One 8225; One 183; Unc; One 182; One 8226;
  One 8218; One 8222; One 8221; One 187; One 8230; One 8240; Unc; One 191;
  Unc; One 96; One 180; One 710; One 732; One 175; One 728; One 729;
  One 168; Unc; One 730; One 184; Unc; One 733; One 731; One 711;
  One 8212; Unc; Unc; Unc; Unc; Unc; Unc; Unc;
  Unc; Unc; Unc; Unc; Unc; Unc; Unc; Unc;
  Unc; One 198; Unc; One 170; Unc; Unc; Unc; Unc;
  One 321; One 216; One 338; One 186; Unc; Unc; Unc; Unc;
  Unc; One 230; Unc; Unc; Unc; One 305; Unc; Unc;
  One 322; One 248; One 339; One 223; Unc; Unc; Unc; Unc
].

Definition annex_pdf : list cell := [
  Unc; Unc; Unc; Unc; Unc; Unc; Unc; Unc;
  Unc; One 9; One 10; Unc; Unc; One 13; Unc; Unc;
  Unc; Unc; Unc; Unc; Unc; Unc; Unc; Unc;
  One 728; One 711; One 710; One 729; One 733; One 731; One 730; One 732;
  One 32; One 33; One 34; One 35; One 36; One 37; One 38; One 39;
  One 40; One 41; One 42; One 43; One 44; One 45; One 46; One 47;
  One 48; One 49; One 50; One 51; One 52; One 53; One 54; One 55;
  One 56; One 57; One 58; One 59; One 60; One 61; One 62; One 63;
  One 64; One 65; One 66; One 67; One 68; One 69; One 70; One 71;
  One 72; One 73; One 74; One 75; One 76; One 77; One 78; One 79;
  One 80; One 81; One 82; One 83; One 84; One 85; One 86; One 87;
  One 88; One 89; One 90; One 91; One 92; One 93; One 94; One 95;
  One 96; One 97; One 98; One 99; One 100; One 101; One 102; One 103;
  One 104; One 105; One 106; One 107; One 108; One 109; One 110; One 111;
  One 112; One 113; One 114; One 115; One 116; One 117; One 118; One 119;
  One 120; One 121; One 122; One 123; One 124; One 125; One 126; Unc;
  One 8226; One 8224; One 8225; One 8230; One 8212; One 8211; One 402; One 8260;
  One 8249; One 8250; One 8722; One 8240; One 8222; One 8220; One 8221; One 8216;
  One 8217; One 8218; One 8482; One 64257; One 64258; One 321; One 338; One 352;
  One 376; One 381; One 305; One 322; One 339; One 353; One 382; Unc;
  One 8364; One 161; One 162; One 163; One 164; One 165; One 166; One 167;
  One 168; One 169; One 170; One 171; One 172; Unc; One 174; One 175;
  One 176; One 177; One 178; One 179; One 180; One 181; One 182; One 183;
  One 184; One 185; One 186; One 187; One 188; One 189; One 190; One 191;
  One 192; One 193; One 194; One 195; One 196; One 197; One 198; One 199;
  One 200; One 201; One 202; One 203; One 204; One 205; One 206; One 207;
  One 208; One 209; One 210; One 211; One 212; One 213; One 214; One 215;
  One 216; One 217; One 218; One 219; One 220; One 221; One 222; One 223;
  One 224; One 225; One 226; One 227; One 228; One 229; One 230; One 231;
  One 232; One 233; One 234; One 235; One 236; One 237; One 238; One 239;
  One 240; One 241; One 242; One 243; One 244; One 245; One 246; One 247;
  One 248; One 249; One 250; One 251; One 252; One 253; One 254; One 255
].
