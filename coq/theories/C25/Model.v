(** C25 — executable model of the single-byte text encodings of text/encoding.rs,
    parser/encoding.rs and decode_text_string (tables taken from Gen/Encodings.v, regenerated
    from the Rust source on every run), the Annex D predicates, and the per-cell checker.
    Nothing in this file depends on a proof. *)
From OxVerif Require Import Base.Util C25.AnnexD.
From OxGen Require Import Encodings.
From Coq Require Import FMapPositive.

(** * Model of the Rust match tables: first matching arm wins *)
Definition earm_apply (a : earm) (cp : N) : option N :=
  match a with
  | EId lo hi => if (lo <=? cp) && (cp <=? hi) then Some (cp mod 256) (* `ch as u8` *) else None
  | EMap c b => if c =? cp then Some b else None
  end.

Fixpoint enc_lookup (arms : list earm) (cp : N) : option N :=
  match arms with
  | [] => None
  | a :: r => match earm_apply a cp with Some b => Some b | None => enc_lookup r cp end
  end.

(** [_ => None] (strict: reported) or [_ => push(b'?')] (lossy) *)
Definition enc_table (arms : list earm) (default : option N) (cp : N) : option N :=
  match enc_lookup arms cp with Some b => Some b | None => default end.

Definition darm_apply (a : darm) (b : N) : option N :=
  match a with
  | DId lo hi => if (lo <=? b) && (b <=? hi) then Some b (* `byte as char` *) else None
  | DMap b' cp => if b' =? b then Some cp else None
  end.

Fixpoint dec_lookup (arms : list darm) (b : N) : option N :=
  match arms with
  | [] => None
  | a :: r => match darm_apply a b with Some c => Some c | None => dec_lookup r b end
  end.

Definition dec_table (arms : list darm) (default : option N) (b : N) : N :=
  match dec_lookup arms b with
  | Some c => c
  | None => match default with Some c => c | None => b end
  end.

(** UTF-8 of one scalar value ([str::bytes] of a one-character string) *)
Definition utf8 (cp : N) : bytes :=
  if cp <? 128 then [cp]
  else if cp <? 2048 then [192 + cp / 64; 128 + cp mod 64]
  else if cp <? 65536 then [224 + cp / 4096; 128 + (cp / 64) mod 64; 128 + cp mod 64]
  else [240 + cp / 262144; 128 + (cp / 4096) mod 64; 128 + (cp / 64) mod 64; 128 + cp mod 64].

Fixpoint assoc (l : list (N * N)) (k : N) : option N :=
  match l with
  | [] => None
  | (a, v) :: r => if a =? k then Some v else assoc r k
  end.

(** * The tables of the library, by number.
    encode (key = code point, result = [None] reported / [Some bytes]):
      0 winansi_encode_char = encode_strict WinAnsi   1 TextEncoding::encode WinAnsi
      2 macroman_encode_char = encode_strict MacRoman 3 TextEncoding::encode MacRoman
      4 encode_strict Standard   5 encode_strict PDFDoc
      6 TextEncoding::encode Standard (UTF-8 pass-through)   7 TextEncoding::encode PDFDoc
    decode (key = byte, result = [Some [code point]]):
      10 winansi_decode_char   11 TextEncoding::decode WinAnsi   12 TextEncoding::decode MacRoman
      13 TextEncoding::decode Standard   14 TextEncoding::decode PDFDoc   (from_utf8_lossy of one byte)
      15 decode_text_string / PdfString::to_text (PDFDoc text strings, via winansi_decode_char)
      16 parser decode_text_with_encoding Windows1252   17 … MacRoman   18 … PdfDocEncoding (= Latin-1) *)
Inductive enc := WIN | MAC | STD | PDF.

Definition table_enc (t : N) : enc :=
  match t with
  | 0 | 1 | 10 | 11 | 16 => WIN
  | 2 | 3 | 12 | 17 => MAC
  | 4 | 6 | 13 => STD
  | _ => PDF
  end.

Definition is_encode_table (t : N) : bool := t <? 10.
Definition table_ids : list N := [0; 1; 2; 3; 4; 5; 6; 7; 10; 11; 12; 13; 14; 15; 16; 17; 18].

Definition one (o : option N) : option bytes := match o with Some b => Some [b] | None => None end.

Definition model (t key : N) : option bytes :=
  match t with
  | 0 => one (enc_table win_enc_strict win_enc_strict_default key)
  | 1 => one (enc_table win_enc_lossy win_enc_lossy_default key)
  | 2 => one (enc_table mac_enc_strict mac_enc_strict_default key)
  | 3 => one (enc_table mac_enc_lossy mac_enc_lossy_default key)
  | 4 | 5 => if key <? strict_ascii_bound then Some [key mod 256] else None
  | 6 | 7 => Some (utf8 key)
  | 10 | 15 => Some [dec_table win_dec_char win_dec_char_default key]
  | 11 => Some [dec_table win_dec_inline win_dec_inline_default key]
  | 12 => Some [dec_table mac_dec_inline mac_dec_inline_default key]
  | 13 | 14 => Some [if key <? 128 then key else 65533]
  | 16 => Some [if key <? 128 then key
                else match assoc parser_win1252_ext key with Some c => c | None => key end]
  | 17 => Some [if key <? 128 then key
                else match assoc parser_macroman key with Some c => c | None => 65533 end]
  | _ => Some [key]
  end.

(** * Annex D predicates *)
Definition annex (e : enc) : list cell :=
  match e with WIN => annex_win | MAC => annex_mac | STD => annex_std | PDF => annex_pdf end.

(* guarded: [andb]/[orb] are strict under vm_compute, so this is reached with large arguments *)
Definition cell_at (e : enc) (b : N) : cell :=
  if b <? 256 then nth (N.to_nat b) (annex e) Unc else Unc.

Definition cell_has (c : cell) (cp : N) : bool :=
  match c with Unc => false | One a => a =? cp | Two a b => (a =? cp) || (b =? cp) end.

Definition is_unc (c : cell) : bool := match c with Unc => true | _ => false end.

Fixpoint inv_from (l : list cell) (b : N) : list (N * N) :=
  match l with
  | [] => []
  | Unc :: r => inv_from r (b + 1)
  | One a :: r => (a, b) :: inv_from r (b + 1)
  | Two a c :: r => (a, b) :: (c, b) :: inv_from r (b + 1)
  end.

(** code point -> codes of each encoding, as a binary trie computed once *)
Definition add_code (m : PositiveMap.t (list N)) (p : N * N) : PositiveMap.t (list N) :=
  let k := N.succ_pos (fst p) in
  PositiveMap.add k (match PositiveMap.find k m with Some l => l ++ [snd p] | None => [snd p] end) m.
Definition inv_of (l : list cell) : PositiveMap.t (list N) :=
  fold_left add_code (inv_from l 0) (PositiveMap.empty _).
Definition inv_win := Eval vm_compute in inv_of annex_win.
Definition inv_mac := Eval vm_compute in inv_of annex_mac.
Definition inv_std := Eval vm_compute in inv_of annex_std.
Definition inv_pdf := Eval vm_compute in inv_of annex_pdf.
Definition inv (e : enc) : PositiveMap.t (list N) :=
  match e with WIN => inv_win | MAC => inv_mac | STD => inv_std | PDF => inv_pdf end.

(** the codes Annex D gives a code point *)
(** every code point of the annex lies in the BMP ([annex_bmp] in Proofs.v), so the guard loses nothing *)
Definition codes_of (e : enc) (cp : N) : list N :=
  if cp <? 65536 then
    match PositiveMap.find (N.succ_pos cp) (inv e) with Some l => l | None => [] end
  else [].

(** the repertoire of an encoding: the code points Annex D gives a code *)
Definition in_rep (e : enc) (cp : N) : bool :=
  match codes_of e cp with [] => false | _ => true end.

(** decode: an assigned code must decode to (one of) the annex's code point(s) *)
Definition dec_ok (e : enc) (b : N) (out : N) : bool :=
  match cell_at e b with Unc => true | c => cell_has c out end.

(** encode: a character of the repertoire gets a code that the annex gives it; a character outside
    the repertoire is reported ([None]) — or lands on a code the annex leaves unassigned (control
    characters), which the annex does not constrain *)
Definition enc_ok (e : enc) (cp : N) (out : option bytes) : bool :=
  if in_rep e cp then
    match out with Some [b] => cell_has (cell_at e b) cp | _ => false end
  else
    match out with None => true | Some [b] => is_unc (cell_at e b) | Some _ => false end.

Definition spec_ok (t key : N) (out : option bytes) : bool :=
  if is_encode_table t then enc_ok (table_enc t) key out
  else match out with Some [c] => dec_ok (table_enc t) key c | _ => false end.

(** * Known-finding classes, each a predicate on (table, key) stated from the ANNEX only *)

(** every code the annex gives [cp] lies in 0xB0..0xFF *)
Definition codes_all_high (e : enc) (cp : N) : bool :=
  forallb (fun b => 176 <=? b) (codes_of e cp).

(** the annex's code of [cp] is not cp's own ASCII value (Standard: ' ` and everything non-ASCII) *)
Definition not_self_ascii (e : enc) (cp : N) : bool :=
  negb ((cp <? 128) && cell_has (cell_at e cp) cp).

(** a character the pass-through gets wrong: in the repertoire under another code, or an ASCII-range
    character outside the repertoire whose own value is an assigned code (PDFDoc U+0018..U+001F) *)
Definition passthrough_wrong (e : enc) (cp : N) : bool :=
  not_self_ascii e cp && (in_rep e cp || ((cp <? 128) && negb (is_unc (cell_at e cp)))).

(** 1 = MacRoman encoders lack the characters coded 0xB0..0xFF;  2 = MacRoman decoder cell 0xDB;
    3 = lossy encode replaces silently;  4 = Standard/PDFDoc are pass-through, not the annex tables;
    5 = PDFDoc text strings decoded with the WinAnsi / Latin-1 table;  6 = parser MacRoman table partial *)
Definition known_class (t key : N) : N :=
  let e := table_enc t in
  match t with
  | 2 => if in_rep e key && codes_all_high e key then 1 else 0
  | 3 => if negb (in_rep e key) then 3 else if codes_all_high e key then 1 else 0
  | 1 => if negb (in_rep e key) then 3 else 0
  | 4 | 5 => if passthrough_wrong e key then 4 else 0
  | 6 | 7 => if passthrough_wrong e key then 4 else if negb (in_rep e key) then 3 else 0
  | 12 => if key =? 219 then 2 else 0
  | 13 | 14 => if negb (is_unc (cell_at e key)) && not_self_ascii e key then 4 else 0
  | 15 => match cell_at PDF key with
          | One c => if cell_has (cell_at WIN key) c then 0 else 5
          | _ => 0
          end
  | 18 => if negb (is_unc (cell_at e key)) && negb (cell_has (cell_at e key) key) then 5 else 0
  | 17 => if (176 <=? key) && negb (is_unc (cell_at e key)) then 6 else 0
  | _ => 0
  end.

(** * Per-cell checker: bit 1 model <> implementation, bit 2 the annex predicate fails on the
    implementation's output; 8 * class is added when the failing cell lies in a known class *)
Definition out_eqb := option_eqb bytes_eqb.

Definition cell_code (c : N * N * option bytes) : N :=
  let '(t, key, impl) := c in
  let m := out_eqb (model t key) impl in
  let p := spec_ok t key impl in
  code_of m p + (if p then 0 else 8 * known_class t key).

(** * Whole-domain comparison with the implementation (detects a translator that misreads the
    source): [pairs] lists every code point on which the real encoder returns a non-default result,
    ascending.  Checked: ascending, every pair agrees with the model, and the number of code points
    below 65536 with a non-default model result is the number of pairs; beyond 65536 every arm of
    the generated tables is out of range ([arms_below]). *)
Definition enc_default (t : N) : option bytes := model t 1114111.

Fixpoint ascending_keys (l : list (N * N)) : bool :=
  match l with
  | (a, _) :: (((b, _) :: _) as r) => (a <? b) && ascending_keys r
  | _ => true
  end.

Definition count_nondefault (t bound : N) : N :=
  snd (N.iter bound (fun '(i, n) => (N.succ i, if out_eqb (model t i) (enc_default t) then n else N.succ n)) (0, 0)).

Definition arm_below (bound : N) (a : earm) : bool :=
  match a with EId _ hi => hi <? bound | EMap c _ => c <? bound end.

Definition arms_of (t : N) : list earm :=
  match t with 0 => win_enc_strict | 1 => win_enc_lossy | 2 => mac_enc_strict | 3 => mac_enc_lossy | _ => [] end.

Definition bulk_code (c : N * list (N * N)) : N :=
  let '(t, pairs) := c in
  let ok := ascending_keys pairs
            && forallb (fun '(cp, b) => (cp <? 65536) && out_eqb (model t cp) (Some [b])
                                         && negb (out_eqb (Some [b]) (enc_default t))) pairs
            && (count_nondefault t 65536 =? N.of_nat (length pairs))
            && forallb (arm_below 65536) (arms_of t)
            && (strict_ascii_bound <=? 65536) in
  if ok then 0 else 1.

(** * Witness search for the driver: first key of the table's domain on which the MODEL violates
    the annex outside every known class *)
Definition model_cell_ok (t key : N) : bool :=
  spec_ok t key (model t key) || negb (known_class t key =? 0).

Definition first_bad_cells : list (N * option N) :=
  List.map (fun t => (t, first_fail (model_cell_ok t) (if is_encode_table t then 65536 else 256))) table_ids.

(** first code point on which a strict and the corresponding lossy table disagree (they must be in
    lock-step: same arms, the lossy one falling back to '?') *)
Definition lockstep_ok (ts tl cp : N) : bool :=
  out_eqb (model tl cp) (match model ts cp with Some b => Some b | None => Some [63] end).
Definition first_unlocked : list (N * option N) :=
  [(1, first_fail (lockstep_ok 0 1) 65536); (3, first_fail (lockstep_ok 2 3) 65536)].
