(** C25 — theorems about the generated encoding tables against Annex D, by complete sweeps of the
    finite part of the domain (all 256 bytes; all code points below 65536) lifted with [allb_spec],
    and a general argument beyond 65536 (no arm of any table and no annex cell reaches there). *)
From OxVerif Require Import Base.Util C25.AnnexD C25.Model.
From OxGen Require Import Encodings.
Require Import Lia ZifyBool.
Local Open Scope N_scope.

(** * Beyond the BMP *)
Lemma enc_lookup_beyond bound arms cp :
  forallb (arm_below bound) arms = true -> bound <= cp -> enc_lookup arms cp = None.
Proof.
  induction arms as [|a r IH]; cbn [forallb enc_lookup]; intros H Hb; [reflexivity|].
  apply andb_true_iff in H. destruct H as [Ha Hr].
  assert (Hn : earm_apply a cp = None).
  { destruct a as [lo hi|c b]; cbn [arm_below earm_apply] in *.
    - replace (cp <=? hi) with false by lia. rewrite andb_false_r. reflexivity.
    - replace (c =? cp) with false by lia. reflexivity. }
  rewrite Hn. apply IH; assumption.
Qed.

Lemma annex_bmp : forall e, forallb (fun p => fst p <? 65536) (inv_from (annex e) 0) = true.
Proof. destruct e; vm_compute; reflexivity. Qed.

Lemma in_rep_beyond e cp : 65536 <= cp -> in_rep e cp = false.
Proof. intros H. unfold in_rep, codes_of. replace (cp <? 65536) with false by lia. reflexivity. Qed.

Lemma arms_bounded :
  forallb (arm_below 65536) win_enc_strict = true /\ forallb (arm_below 65536) win_enc_lossy = true /\
  forallb (arm_below 65536) mac_enc_strict = true /\ forallb (arm_below 65536) mac_enc_lossy = true /\
  strict_ascii_bound <= 65536.
Proof. vm_compute. repeat split; discriminate. Qed.

Lemma defaults :
  win_enc_strict_default = None /\ mac_enc_strict_default = None /\
  win_enc_lossy_default = Some 63 /\ mac_enc_lossy_default = Some 63.
Proof. repeat split. Qed.

(** * Encode tables 0..7: every code point *)
Definition encode_tables : list N := [0; 1; 2; 3; 4; 5; 6; 7].
Definition decode_tables : list N := [10; 11; 12; 13; 14; 15; 16; 17; 18].

Lemma encode_sweep :
  allb (fun cp => forallb (fun t => model_cell_ok t cp) encode_tables) 65536 = true.
Proof. vm_compute. reflexivity. Qed.

Lemma model_cell_ok_elim t k :
  model_cell_ok t k = true -> known_class t k = 0 -> spec_ok t k (model t k) = true.
Proof.
  unfold model_cell_ok. intros H K. rewrite K in H. cbn in H. rewrite orb_false_r in H. exact H.
Qed.

Lemma strict_beyond cp : 65536 <= cp ->
  model 0 cp = None /\ model 2 cp = None /\ model 4 cp = None /\ model 5 cp = None.
Proof.
  intros H. destruct arms_bounded as (A0 & A1 & A2 & A3 & A4).
  destruct defaults as (D0 & D2 & _).
  cbn [model]. unfold enc_table.
  rewrite (enc_lookup_beyond 65536 _ cp A0 H), (enc_lookup_beyond 65536 _ cp A2 H), D0, D2.
  replace (cp <? strict_ascii_bound) with false by lia. repeat split.
Qed.

Lemma encode_matches t cp :
  In t encode_tables -> known_class t cp = 0 -> spec_ok t cp (model t cp) = true.
Proof.
  intros Ht K. destruct (N.ltb_spec cp 65536) as [Hlt|Hge].
  - pose proof (allb_spec _ _ encode_sweep cp Hlt) as S. cbn beta in S.
    rewrite forallb_forall in S. apply model_cell_ok_elim; [apply S; exact Ht | exact K].
  - destruct (strict_beyond cp Hge) as (M0 & M2 & M4 & M5).
    pose proof (in_rep_beyond WIN cp Hge) as RW. pose proof (in_rep_beyond MAC cp Hge) as RM.
    pose proof (in_rep_beyond STD cp Hge) as RS. pose proof (in_rep_beyond PDF cp Hge) as RP.
    assert (NA : forall e, not_self_ascii e cp = true).
    { intros e. unfold not_self_ascii. replace (cp <? 128) with false by lia. reflexivity. }
    cbn [encode_tables In] in Ht.
    destruct Ht as [<-|[<-|[<-|[<-|[<-|[<-|[<-|[<-|[]]]]]]]]];
      unfold spec_ok; cbn [is_encode_table table_enc N.ltb N.compare Pos.compare Pos.compare_cont];
      unfold enc_ok; cbn [table_enc].
    + rewrite M0, RW. reflexivity.
    + exfalso. cbn [known_class table_enc] in K. rewrite RW in K. discriminate.
    + rewrite M2, RM. reflexivity.
    + exfalso. cbn [known_class table_enc] in K. rewrite RM in K. discriminate.
    + rewrite M4, RS. reflexivity.
    + rewrite M5, RP. reflexivity.
    + exfalso. cbn [known_class table_enc] in K. unfold passthrough_wrong in K.
      rewrite RS, NA in K. replace (cp <? 128) with false in K by lia. discriminate.
    + exfalso. cbn [known_class table_enc] in K. unfold passthrough_wrong in K.
      rewrite RP, NA in K. replace (cp <? 128) with false in K by lia. discriminate.
Qed.

(** * Decode tables 10..18: every byte *)
Lemma decode_sweep :
  allb (fun b => forallb (fun t => model_cell_ok t b) decode_tables) 256 = true.
Proof. vm_compute. reflexivity. Qed.

Lemma decode_matches t b :
  In t decode_tables -> b < 256 -> known_class t b = 0 -> spec_ok t b (model t b) = true.
Proof.
  intros Ht Hb K. pose proof (allb_spec _ _ decode_sweep b Hb) as S. cbn beta in S.
  rewrite forallb_forall in S. apply model_cell_ok_elim; [apply S; exact Ht | exact K].
Qed.

(** * Inverses on the repertoire *)
Definition wenc := enc_table win_enc_strict win_enc_strict_default.
Definition wdec := dec_table win_dec_char win_dec_char_default.
Definition wdec_inline := dec_table win_dec_inline win_dec_inline_default.
Definition menc := enc_table mac_enc_strict mac_enc_strict_default.
Definition mdec := dec_table mac_dec_inline mac_dec_inline_default.

Lemma win_dec_enc_sweep :
  allb (fun b => is_unc (cell_at WIN b) || (option_eqb N.eqb (wenc (wdec b)) (Some b)
                                            && option_eqb N.eqb (wenc (wdec_inline b)) (Some b))) 256 = true.
Proof. vm_compute. reflexivity. Qed.

Lemma win_dec_then_enc b : b < 256 -> is_unc (cell_at WIN b) = false ->
  wenc (wdec b) = Some b /\ wenc (wdec_inline b) = Some b.
Proof.
  intros Hb Hu. pose proof (allb_spec _ _ win_dec_enc_sweep b Hb) as S. cbn beta in S.
  rewrite Hu in S. cbn [orb] in S. apply andb_true_iff in S. destruct S as [S1 S2].
  split; [destruct (wenc (wdec b)) | destruct (wenc (wdec_inline b))]; cbn in *; try discriminate;
    f_equal; apply N.eqb_eq; assumption.
Qed.

Lemma win_enc_dec_sweep :
  allb (fun cp => match wenc cp with Some b => (wdec b =? cp) && (b <? 256) | None => true end) 65536 = true.
Proof. vm_compute. reflexivity. Qed.

Lemma win_enc_then_dec cp b : wenc cp = Some b -> wdec b = cp /\ b < 256.
Proof.
  intros H. destruct (N.ltb_spec cp 65536) as [Hlt|Hge].
  - pose proof (allb_spec _ _ win_enc_dec_sweep cp Hlt) as S. cbn beta in S. rewrite H in S.
    apply andb_true_iff in S. destruct S as [S1 S2]. split; [apply N.eqb_eq; exact S1 | lia].
  - destruct (strict_beyond cp Hge) as (M0 & _). cbn [model] in M0. fold wenc in M0.
    rewrite H in M0. discriminate.
Qed.

Lemma mac_dec_enc_sweep :
  allb (fun b => (176 <=? b) || is_unc (cell_at MAC b) || option_eqb N.eqb (menc (mdec b)) (Some b)) 256 = true.
Proof. vm_compute. reflexivity. Qed.

Lemma mac_dec_then_enc_low b : b < 176 -> is_unc (cell_at MAC b) = false -> menc (mdec b) = Some b.
Proof.
  intros Hb Hu. pose proof (allb_spec _ _ mac_dec_enc_sweep b ltac:(lia)) as S. cbn beta in S.
  rewrite Hu in S. replace (176 <=? b) with false in S by lia. cbn [orb] in S.
  destruct (menc (mdec b)); cbn in S; [f_equal; apply N.eqb_eq; exact S | discriminate].
Qed.

Lemma mac_enc_dec_sweep :
  allb (fun cp => match menc cp with Some b => (mdec b =? cp) && (b <? 256) | None => true end) 65536 = true.
Proof. vm_compute. reflexivity. Qed.

Lemma mac_enc_then_dec cp b : menc cp = Some b -> mdec b = cp /\ b < 256.
Proof.
  intros H. destruct (N.ltb_spec cp 65536) as [Hlt|Hge].
  - pose proof (allb_spec _ _ mac_enc_dec_sweep cp Hlt) as S. cbn beta in S. rewrite H in S.
    apply andb_true_iff in S. destruct S as [S1 S2]. split; [apply N.eqb_eq; exact S1 | lia].
  - destruct (strict_beyond cp Hge) as (_ & M2 & _). cbn [model] in M2. fold menc in M2.
    rewrite H in M2. discriminate.
Qed.

Lemma out_eqb_eq a b : out_eqb a b = true -> a = b.
Proof.
  unfold out_eqb. destruct a, b; cbn; intros H; try discriminate; [|reflexivity].
  f_equal. apply bytes_eqb_eq. exact H.
Qed.

(** * Strict and lossy encoders are in lock-step; strict reports exactly outside the repertoire *)
Lemma lockstep_sweep : allb (fun cp => lockstep_ok 0 1 cp && lockstep_ok 2 3 cp) 65536 = true.
Proof. vm_compute. reflexivity. Qed.

Lemma lossy_is_strict_or_question cp :
  model 1 cp = match model 0 cp with Some b => Some b | None => Some [63] end /\
  model 3 cp = match model 2 cp with Some b => Some b | None => Some [63] end.
Proof.
  destruct (N.ltb_spec cp 65536) as [Hlt|Hge].
  - pose proof (allb_spec _ _ lockstep_sweep cp Hlt) as S. cbn beta in S.
    apply andb_true_iff in S. destruct S as [S1 S2]. unfold lockstep_ok in *.
    split; [exact (out_eqb_eq _ _ S1) | exact (out_eqb_eq _ _ S2)].
  - destruct (strict_beyond cp Hge) as (M0 & M2 & _). rewrite M0, M2.
    destruct arms_bounded as (_ & A1 & _ & A3 & _). destruct defaults as (_ & _ & D1 & D3).
    cbn [model]. unfold enc_table.
    rewrite (enc_lookup_beyond 65536 _ cp A1 Hge), (enc_lookup_beyond 65536 _ cp A3 Hge), D1, D3.
    split; reflexivity.
Qed.

Lemma strict_reports_sweep :
  allb (fun cp => (cp <? 128) || (Bool.eqb (match model 0 cp with None => true | _ => false end) (negb (in_rep WIN cp)))) 65536 = true.
Proof. vm_compute. reflexivity. Qed.

Lemma win_strict_reports_exactly cp : 128 <= cp -> (model 0 cp = None <-> in_rep WIN cp = false).
Proof.
  intros H. destruct (N.ltb_spec cp 65536) as [Hlt|Hge].
  - pose proof (allb_spec _ _ strict_reports_sweep cp Hlt) as S. cbn beta in S.
    replace (cp <? 128) with false in S by lia. cbn [orb] in S. apply Bool.eqb_prop in S.
    destruct (model 0 cp), (in_rep WIN cp); cbn in S; split; intros; congruence.
  - destruct (strict_beyond cp Hge) as (M0 & _). rewrite M0, (in_rep_beyond WIN cp Hge). tauto.
Qed.

(** * Refuted on the pinned tree (known findings), each with its witness cell *)
Lemma mac_encode_refuted :   (* class 1: U+00B1, Annex D code 0xB1 *)
  in_rep MAC 177 = true /\ model 2 177 = None /\ model 3 177 = Some [63] /\ known_class 2 177 = 1.
Proof. vm_compute. repeat split. Qed.

Lemma mac_inverse_refuted : mdec 177 = 177 /\ menc (mdec 177) = None /\ cell_at MAC 177 = One 177.
Proof. vm_compute. repeat split. Qed.

Lemma mac_decode_refuted :   (* class 2: 0xDB is currency U+00A4 in Table D.2, the code has Euro *)
  cell_at MAC 219 = One 164 /\ model 12 219 = Some [8364] /\ known_class 12 219 = 2.
Proof. vm_compute. repeat split. Qed.

Lemma lossy_encode_silent :  (* class 3: U+4E2D is outside WinAnsi; encode() yields '?' *)
  in_rep WIN 20013 = false /\ model 1 20013 = Some [63] /\ model 0 20013 = None /\ known_class 1 20013 = 3.
Proof. vm_compute. repeat split. Qed.

Lemma standard_matches_refuted :  (* class 4: quoteright U+2019 is 0x27 in StandardEncoding *)
  cell_at STD 39 = One 8217 /\ model 6 8217 = Some [226; 128; 153] /\ model 4 8217 = None
  /\ model 4 39 = Some [39] /\ codes_of STD 39 = [169] /\ known_class 4 39 = 4.
Proof. vm_compute. repeat split. Qed.

Lemma pdfdoc_matches_refuted :    (* classes 4 and 5: bullet U+2022 is 0x80 in PDFDocEncoding *)
  cell_at PDF 128 = One 8226 /\ model 7 8226 = Some [226; 128; 162] /\ model 14 128 = Some [65533]
  /\ model 15 128 = Some [8364] /\ model 18 128 = Some [128] /\ known_class 15 128 = 5.
Proof. vm_compute. repeat split. Qed.

Lemma parser_macroman_refuted :   (* class 6 *)
  cell_at MAC 177 = One 177 /\ model 17 177 = Some [65533] /\ known_class 17 177 = 6.
Proof. vm_compute. repeat split. Qed.

(** non-vacuity: cells outside every class that the theorems do constrain *)
Example encode_matches_nonvacuous :
  known_class 0 8364 = 0 /\ model 0 8364 = Some [128] /\ known_class 2 8224 = 0 /\ model 2 8224 = Some [160]
  /\ known_class 3 233 = 0 /\ model 3 233 = Some [142] /\ known_class 4 65 = 0 /\ model 4 65 = Some [65].
Proof. vm_compute. repeat split. Qed.

Example decode_matches_nonvacuous :
  known_class 10 128 = 0 /\ model 10 128 = Some [8364] /\ known_class 12 222 = 0 /\ model 12 222 = Some [64257]
  /\ known_class 15 156 = 0 /\ model 15 156 = Some [339] /\ known_class 17 160 = 0 /\ model 17 160 = Some [8224].
Proof. vm_compute. repeat split. Qed.
