(** C09 — the real-number token: what read_number makes of {:.6}-trimmed output. *)
From OxVerif Require Import Base.Util C09.Model C09.Tokens C09.FracSweep C09.Proofs.
Require Import Lia ZifyBool.

Lemma frac_facts : forall x, x < 1000000 ->
  let d := trim0 (pad6 x) in
  forallb is_digit d = true /\ Nat.leb (length d) 6 = true
  /\ dval 0 d * 10 ^ (6 - N.of_nat (length d)) = x
  /\ (x = 0 <-> d = []).
Proof.
  intros x H d. pose proof (frac_sweep x H) as K. unfold frac_ok in K. fold d in K. clearbody d.
  repeat (apply andb_true_iff in K; destruct K as [K ?]).
  apply N.eqb_eq in H1. repeat split; try assumption.
  - intro E. rewrite E in H0. destruct d; [reflexivity|]. cbn in H0. discriminate.
  - intro E. rewrite E in H0. destruct (x =? 0) eqn:F; [apply N.eqb_eq in F; exact F | cbn in H0; discriminate].
Qed.

Lemma lex1_sign_body : forall (neg : bool) (q : N) (tail : bytes),
  lex1 ((if neg then [45] else []) ++ dec q ++ tail) = number_body neg (dec q ++ tail).
Proof.
  intros neg q tail. destruct (dec_head_digit q) as (c & r & E & D). rewrite E.
  destruct neg; cbn [app].
  - apply lex1_minus. exact D.
  - apply lex1_digit. exact D.
Qed.

Lemma lex1_real : forall (neg : bool) (m : N) (rest : bytes), real_ok neg m = true -> good_rest rest ->
  lex1 (ser_real neg m ++ rest) = (real_tok neg m, rest).
Proof.
  intros neg m rest Hok G. pose proof (good_rest_num _ G) as R.
  unfold ser_real. rewrite <- !app_assoc. rewrite lex1_sign_body.
  assert (Hx : m mod 1000000 < 1000000) by (apply N.mod_lt; lia).
  destruct (frac_facts _ Hx) as (Fd & Fl & Fv & Fz).
  unfold real_tok, real_ok in *. unfold frac6.
  destruct (m mod 1000000 =? 0) eqn:Ez.
  - apply N.eqb_eq in Ez. destruct Fz as [Fz _]. rewrite (Fz Ez). cbn [app].
    apply (number_body_int neg (m / 1000000) rest R). exact Hok.
  - apply N.eqb_neq in Ez.
    destruct (trim0 (pad6 (m mod 1000000))) as [|d0 ds] eqn:Ed.
    { exfalso. apply Ez. apply Fz. reflexivity. }
    change ((46 :: d0 :: ds) ++ rest) with (46 :: (d0 :: ds) ++ rest). unfold number_body.
    rewrite (take_digits_app (dec (m / 1000000)) (46 :: (d0 :: ds) ++ rest) (dec_digits _) eq_refl).
    change (46 =? 46) with true. cbv iota.
    rewrite (take_digits_app (d0 :: ds) rest Fd (good_rest_nodigit _ G)).
    assert (F : finish_number neg true (dec (m / 1000000)) (d0 :: ds) rest = (TReal neg (Some m), rest)).
    { unfold finish_number. pose proof (dec_nonempty (m / 1000000)).
      destruct (dec (m / 1000000) ++ d0 :: ds) eqn:A; [destruct (dec (m / 1000000)); discriminate|].
      rewrite Fl, dec_val, Fv. do 3 f_equal. pose proof (N.div_mod m 1000000). lia. }
    destruct rest as [|c r]; [exact F|].
    destruct R as (_ & _ & R1 & R2). apply N.eqb_neq in R1. apply N.eqb_neq in R2. rewrite R1, R2. exact F.
Qed.

Lemma lex_ser_real : forall nm neg m rest, real_ok neg m = true -> good_rest rest ->
  lex1 (ser nm (OReal neg m) ++ rest) = (real_tok neg m, rest).
Proof. intros. apply lex1_real; assumption. Qed.

Lemma lex1_pos_body : forall (q : N) (tail : bytes), lex1 (dec q ++ tail) = number_body false (dec q ++ tail).
Proof. intros. exact (lex1_sign_body false q tail). Qed.

Lemma lex_ser_ref : forall nm n g rest, good_rest rest ->
  (Z.of_N n <=? i64_max)%Z = true -> (Z.of_N g <=? i64_max)%Z = true ->
  exists r1 r2, lex1 (ser nm (ORef n g) ++ rest) = (TInt (Z.of_N n), r1)
             /\ lex1 r1 = (TInt (Z.of_N g), r2) /\ lex1 r2 = (TName name_R, rest).
Proof.
  intros nm n g rest G Hn Hg. cbn [ser]. rewrite <- app_assoc. cbn [app]. rewrite <- app_assoc. cbn [app].
  exists (32 :: dec g ++ 32 :: 82 :: rest), (32 :: 82 :: rest). repeat split.
  - rewrite lex1_pos_body. apply (number_body_int false n); [repeat split; discriminate|].
    unfold int_ok, signed. unfold i64_min. lia.
  - change (lex1 (32 :: dec g ++ 32 :: 82 :: rest)) with (lex1 (dec g ++ 32 :: 82 :: rest)).
    rewrite lex1_pos_body. apply (number_body_int false g); [repeat split; discriminate|].
    unfold int_ok, signed. unfold i64_min. lia.
Qed.
