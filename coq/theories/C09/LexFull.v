(** C09 — the nested round trip against the ISO-shaped reference reader of Lex.v:
      forall v, iso_wf v = true -> iso_parse (ser esc_iso v) = Some (norm v)
    Same two layers as Full.v (bytes -> tokens, tokens -> value). *)
From OxVerif Require Import Base.Util C09.Model C09.Tokens C09.FracSweep C09.Proofs C09.Reals C09.Full C09.Lex.
Require Import Lia ZifyBool.

(** * the token sequence an ISO reader sees: [R] is a keyword *)
Fixpoint itoks (v : obj) : list token :=
  match v with
  | ONull => [TNull]
  | OBool b => [TBool b]
  | OInt z => [TInt z]
  | OReal neg m => [real_tok neg m]
  | OStr s => [TStr s]
  | OHex s => [TStr s]
  | OName n => [TName n]
  | OArr l => TArrS :: flat_map itoks l ++ [TArrE]
  | ODict l => TDictS :: flat_map (fun kt => TName (fst kt) :: snd kt)
                                  (sort_kv (map (fun '(k, x) => (k, itoks x)) l)) ++ [TDictE]
  | ORef n g => [TInt (Z.of_N n); TInt (Z.of_N g); TKw kw_R]
  end.
Definition ientry_toks (kv : bytes * obj) : list token := TName (fst kv) :: itoks (snd kv).
Lemma itoks_dict : forall l,
  itoks (ODict l) = TDictS :: flat_map ientry_toks (sort_kv l) ++ [TDictE].
Proof.
  intro l. cbn [itoks]. rewrite map_pair_on_snd, sort_kv_map.
  f_equal. f_equal. induction (sort_kv l) as [|kv r IH]; [reflexivity|].
  cbn [map flat_map]. rewrite IH. reflexivity.
Qed.

(** * Layer 1 *)
Inductive ILexes : bytes -> list token -> bytes -> Prop :=
| ILexes_nil : forall bs, ILexes bs [] bs
| ILexes_ws : forall c bs ts bs', iws c = true -> ILexes bs ts bs' -> ILexes (c :: bs) ts bs'
| ILexes_tok : forall bs t r ts bs', ilex1 bs = (t, r) -> is_tok t = true ->
    (length r < length bs)%nat -> ILexes r ts bs' -> ILexes bs (t :: ts) bs'.

Lemma ILexes_len : forall bs ts bs', ILexes bs ts bs' -> (length ts + length bs' <= length bs)%nat.
Proof. induction 1; cbn [length] in *; lia. Qed.

Lemma ilex1_ws : forall c bs, iws c = true -> ilex1 (c :: bs) = ilex1 bs.
Proof. intros c bs H. unfold ilex1. cbn [iskip]. rewrite H. reflexivity. Qed.
Lemma ilex_all_ws : forall f c bs, iws c = true -> ilex_all f (c :: bs) = ilex_all f bs.
Proof. intros [|f] c bs H; [reflexivity|]. cbn [ilex_all]. rewrite ilex1_ws by exact H. reflexivity. Qed.
Lemma ilex_all_step : forall bs t r f, ilex1 bs = (t, r) -> is_tok t = true ->
  ilex_all (S f) bs = t :: ilex_all f r.
Proof. intros bs t r f H K. cbn [ilex_all]. rewrite H. destruct t; try reflexivity; discriminate. Qed.

Lemma ILexes_lex_all : forall bs ts bs', ILexes bs ts bs' -> forall f, (length ts <= f)%nat ->
  ilex_all f bs = ts ++ ilex_all (f - length ts) bs'.
Proof.
  induction 1; intros f Hf.
  - cbn [length app]. rewrite Nat.sub_0_r. reflexivity.
  - rewrite ilex_all_ws by assumption. apply IHILexes. exact Hf.
  - cbn [length] in Hf. destruct f as [|f]; [lia|].
    rewrite (ilex_all_step _ _ _ _ H H0). cbn [length Nat.sub app]. f_equal. apply IHILexes. lia.
Qed.

Lemma ILexes_app : forall a t1 b t2 c, ILexes a t1 b -> ILexes b t2 c -> ILexes a (t1 ++ t2) c.
Proof.
  intros a t1 b t2 c H. revert t2 c. induction H; intros t2 c0 K; cbn [app].
  - exact K.
  - apply ILexes_ws; auto.
  - eapply ILexes_tok; eauto.
Qed.

Lemma ILexes_one : forall s rest t, ilex1 (s ++ rest) = (t, rest) -> is_tok t = true -> s <> [] ->
  ILexes (s ++ rest) [t] rest.
Proof.
  intros s rest t H K N. eapply ILexes_tok; [exact H | exact K | apply app_longer; exact N | apply ILexes_nil].
Qed.

(** ** token boundaries *)
Definition istop (rest : bytes) : Prop :=
  match rest with [] => True | c :: _ => iregular c = false end.
Lemma good_rest_istop : forall r, good_rest r -> istop r.
Proof. intros [|c r] H; [exact I|]. cbn in *. destruct H as [->|[->| ->]]; reflexivity. Qed.

Lemma iskip_start : forall c r, iws c = false -> (c =? 37) = false -> iskip false (c :: r) = c :: r.
Proof. intros c r H1 H2. cbn [iskip]. rewrite H1, H2. reflexivity. Qed.

Lemma irun_app : forall w rest, forallb iregular w = true -> istop rest -> irun (w ++ rest) = (w, rest).
Proof.
  induction w as [|c w IH]; intros rest H D.
  - cbn [app]. destruct rest as [|d r]; [reflexivity|]. cbn in D. cbn [irun]. rewrite D. reflexivity.
  - cbn [forallb] in H. apply andb_true_iff in H. destruct H as [Hc Hw].
    cbn [app irun]. rewrite Hc, (IH rest Hw D). reflexivity.
Qed.

Lemma ilex1_regular : forall c r, iregular c = true ->
  ilex1 (c :: r) = let '(w, rest) := irun (c :: r) in (iword w, rest).
Proof.
  intros c r H. unfold ilex1.
  assert (A : iws c = false /\ (c =? 37) = false /\ (c =? 47) = false /\ (c =? 40) = false
              /\ (c =? 60) = false /\ (c =? 62) = false /\ (c =? 91) = false /\ (c =? 93) = false).
  { unfold iregular, iws, idelim in *. lia. }
  destruct A as (A0 & A1 & A2 & A3 & A4 & A5 & A6 & A7).
  rewrite (iskip_start c r A0 A1). unfold itok. rewrite A2, A3, A4, A5, A6, A7, H. reflexivity.
Qed.

Lemma ilex1_word : forall w rest, w <> [] -> forallb iregular w = true -> istop rest ->
  ilex1 (w ++ rest) = (iword w, rest).
Proof.
  intros [|c w] rest N H D; [contradiction|].
  pose proof H as H'. cbn [forallb] in H'. apply andb_true_iff in H'. destruct H' as [Hc _].
  change ((c :: w) ++ rest) with (c :: (w ++ rest)). rewrite (ilex1_regular c _ Hc).
  change (c :: w ++ rest) with ((c :: w) ++ rest). rewrite (irun_app _ _ H D). reflexivity.
Qed.

(** ** numbers *)
Lemma digit_regular : forall c, is_digit c = true -> iregular c = true.
Proof. intros c H. unfold is_digit, iregular, iws, idelim in *. lia. Qed.
Lemma digits_regular : forall d, forallb is_digit d = true -> forallb iregular d = true.
Proof. intro d. apply forallb_impl. exact digit_regular. Qed.

Lemma inum_body_int : forall neg q, inum_body neg (dec q) = Some (TInt (signed neg q)).
Proof.
  intros neg q. unfold inum_body.
  pose proof (take_digits_app (dec q) [] (dec_digits q) I) as T. rewrite app_nil_r in T. rewrite T.
  pose proof (dec_nonempty q). destruct (dec q) eqn:D; [contradiction|].
  rewrite <- D, dec_val. reflexivity.
Qed.

Lemma inum_body_real : forall neg q d, forallb is_digit d = true -> Nat.leb (length d) 6 = true ->
  d <> [] ->
  inum_body neg (dec q ++ 46 :: d)
  = Some (TReal neg (Some (q * 1000000 + dval 0 d * 10 ^ (6 - N.of_nat (length d))))).
Proof.
  intros neg q d Hd Hl Hn. unfold inum_body.
  rewrite (take_digits_app (dec q) (46 :: d) (dec_digits _) eq_refl).
  change (46 =? 46) with true. cbv iota.
  pose proof (take_digits_app d [] Hd I) as T. rewrite app_nil_r in T. rewrite T.
  destruct (dec q ++ d) eqn:A.
  { apply app_eq_nil in A. destruct A as [_ A]. contradiction. }
  rewrite Hl, dec_val. reflexivity.
Qed.

Lemma inumber_signed : forall (neg : bool) q tail,
  inumber ((if neg then [45] else []) ++ dec q ++ tail) = inum_body neg (dec q ++ tail).
Proof.
  intros neg q tail. destruct (dec_head_digit q) as (c & r & E & D). rewrite E.
  destruct neg; cbn [app inumber].
  - reflexivity.
  - unfold is_digit in D. replace (c =? 43) with false by lia. replace (c =? 45) with false by lia.
    reflexivity.
Qed.

Lemma inumber_dec : forall q, inumber (dec q) = Some (TInt (Z.of_N q)).
Proof.
  intro q. pose proof (inumber_signed false q []) as K. cbn [app] in K. rewrite app_nil_r in K.
  rewrite K. apply (inum_body_int false).
Qed.
Lemma inumber_dec_z : forall z, inumber (dec_z z) = Some (TInt z).
Proof.
  intros [|p|p]; unfold dec_z.
  - apply inumber_dec.
  - rewrite inumber_dec. reflexivity.
  - pose proof (inumber_signed true (N.pos p) []) as K. cbn [app] in K. rewrite app_nil_r in K.
    rewrite K. apply (inum_body_int true).
Qed.
Lemma inumber_real : forall neg m, inumber (ser_real neg m) = Some (real_tok neg m).
Proof.
  intros neg m. unfold ser_real. rewrite inumber_signed.
  assert (Hx : m mod 1000000 < 1000000) by (apply N.mod_lt; lia).
  destruct (frac_facts _ Hx) as (Fd & Fl & Fv & Fz).
  unfold real_tok, frac6. destruct (m mod 1000000 =? 0) eqn:Ez.
  - apply N.eqb_eq in Ez. destruct Fz as [Fz _]. rewrite (Fz Ez), app_nil_r.
    apply inum_body_int.
  - apply N.eqb_neq in Ez.
    destruct (trim0 (pad6 (m mod 1000000))) as [|d0 ds] eqn:Ed.
    { exfalso. apply Ez. apply Fz. reflexivity. }
    rewrite (inum_body_real neg (m / 1000000) (d0 :: ds) Fd Fl) by discriminate.
    rewrite Fv. do 3 f_equal. pose proof (N.div_mod m 1000000). lia.
Qed.

Lemma dec_regular : forall q, forallb iregular (dec q) = true.
Proof. intro. apply digits_regular, dec_digits. Qed.
Lemma dec_z_regular : forall z, forallb iregular (dec_z z) = true.
Proof.
  intros [|p|p]; unfold dec_z; [apply dec_regular | apply dec_regular |].
  cbn [forallb]. rewrite dec_regular. reflexivity.
Qed.
Lemma ser_real_regular : forall neg m, forallb iregular (ser_real neg m) = true.
Proof.
  intros neg m. unfold ser_real. rewrite !forallb_app, dec_regular.
  assert (Hx : m mod 1000000 < 1000000) by (apply N.mod_lt; lia).
  destruct (frac_facts _ Hx) as (Fd & _). unfold frac6.
  destruct (trim0 (pad6 (m mod 1000000))) as [|d0 ds].
  - destruct neg; reflexivity.
  - cbn [forallb] in *. apply andb_true_iff in Fd. destruct Fd as [F0 Fs].
    rewrite (digit_regular _ F0), (digits_regular _ Fs). destruct neg; reflexivity.
Qed.

Lemma iword_num : forall w t, inumber w = Some t -> iword w = t.
Proof. intros w t H. unfold iword. rewrite H. reflexivity. Qed.

Lemma ilex1_int : forall z rest, good_rest rest -> ilex1 (dec_z z ++ rest) = (TInt z, rest).
Proof.
  intros z rest G. rewrite (ilex1_word _ _ (dec_z_nonempty z) (dec_z_regular z) (good_rest_istop _ G)).
  rewrite (iword_num _ _ (inumber_dec_z z)). reflexivity.
Qed.
Lemma ilex1_nat : forall q rest, istop rest -> ilex1 (dec q ++ rest) = (TInt (Z.of_N q), rest).
Proof.
  intros q rest G. rewrite (ilex1_word _ _ (dec_nonempty q) (dec_regular q) G).
  rewrite (iword_num _ _ (inumber_dec q)). reflexivity.
Qed.
Lemma ilex1_real : forall neg m rest, good_rest rest ->
  ilex1 (ser_real neg m ++ rest) = (real_tok neg m, rest).
Proof.
  intros neg m rest G.
  rewrite (ilex1_word _ _ (ser_real_nonempty neg m) (ser_real_regular neg m) (good_rest_istop _ G)).
  rewrite (iword_num _ _ (inumber_real neg m)). reflexivity.
Qed.
Lemma ilex1_kw : forall w rest t, w <> [] -> forallb iregular w = true -> iword w = t -> good_rest rest ->
  ilex1 (w ++ rest) = (t, rest).
Proof. intros w rest t N H E G. rewrite (ilex1_word _ _ N H (good_rest_istop _ G)), E. reflexivity. Qed.

(** ** strings *)
Lemma istr_esc : forall s rest, no_cr s = true -> istr (esc_str s ++ 41 :: rest) 0 = Some (s, rest).
Proof.
  induction s as [|c s IH]; intros rest H.
  - reflexivity.
  - cbn [no_cr forallb] in H. apply andb_true_iff in H. destruct H as [Hc Hs].
    apply negb_true_iff in Hc. fold (no_cr s) in Hs.
    cbn [esc_str].
    destruct (c =? 92) eqn:E92.
    { apply N.eqb_eq in E92. subst c. cbn. rewrite (IH rest Hs). reflexivity. }
    destruct (c =? 40) eqn:E40.
    { apply N.eqb_eq in E40. subst c. cbn. rewrite (IH rest Hs). reflexivity. }
    destruct (c =? 41) eqn:E41.
    { apply N.eqb_eq in E41. subst c. cbn. rewrite (IH rest Hs). reflexivity. }
    cbn [orb app istr]. rewrite E92, Hc, E40, E41, (IH rest Hs). reflexivity.
Qed.

Lemma ilex1_str : forall s rest, no_cr s = true ->
  ilex1 (40 :: esc_str s ++ 41 :: rest) = (TStr s, rest).
Proof.
  intros s rest H. unfold ilex1. rewrite iskip_start by reflexivity.
  unfold itok. cbn [N.eqb Pos.eqb]. rewrite (istr_esc s rest H). reflexivity.
Qed.

Lemma ihex_ser : forall s rest, bytes_ok s = true ->
  ihex (ser_hex s ++ 62 :: rest) = Some (nibs s, rest).
Proof.
  induction s as [|b s IH]; intros rest H.
  - reflexivity.
  - cbn [bytes_ok forallb] in H. apply andb_true_iff in H. destruct H as [Hb Hs].
    unfold byte_ok in Hb. apply N.ltb_lt in Hb.
    pose proof (hex_byte_sweep b Hb) as K. unfold hex_byte_ok in K.
    destruct (hexv (hexdig (b / 16))) as [x|] eqn:E1; [|discriminate].
    destruct (hexv (hexdig (b mod 16))) as [y|] eqn:E2; [|discriminate].
    repeat (apply andb_true_iff in K; destruct K as [K ?]).
    apply N.eqb_eq in K.
    repeat match goal with H : (_ =? _) = true |- _ => apply N.eqb_eq in H end.
    repeat match goal with H : negb (_ =? _) = true |- _ => apply negb_true_iff in H end.
    cbn [ser_hex app ihex nibs].
    rewrite H2, E1. rewrite H1, E2. rewrite (IH rest Hs). subst x y. reflexivity.
Qed.

Lemma ilex1_hex : forall s rest, bytes_ok s = true ->
  ilex1 (60 :: ser_hex s ++ 62 :: rest) = (TStr s, rest).
Proof.
  intros s rest H. unfold ilex1. rewrite iskip_start by reflexivity.
  unfold itok. cbn [N.eqb Pos.eqb].
  pose proof (ser_hex_not_lt s rest) as K.
  rewrite (ihex_ser s rest H), (pair_nibs s H) in *.
  destruct (ser_hex s ++ 62 :: rest) as [|c r]; [reflexivity|].
  destruct c as [|p]; [reflexivity|]. repeat (destruct p; try reflexivity). contradiction.
Qed.

(** ** names *)
Lemma iname_raw : forall n rest, iso_name n = true -> istop rest -> iname (n ++ rest) = Some (n, rest).
Proof.
  induction n as [|c n IH]; intros rest H D.
  - cbn [app]. destruct rest as [|d r]; [reflexivity|]. cbn in D. cbn [iname]. rewrite D. reflexivity.
  - cbn [iso_name forallb] in H. apply andb_true_iff in H. destruct H as [Hc Hn].
    unfold iso_char in Hc. apply andb_true_iff in Hc. destruct Hc as [H1 H2].
    apply negb_true_iff in H2.
    cbn [app iname]. rewrite H1, H2. cbn [negb]. rewrite (IH rest Hn D). reflexivity.
Qed.
Lemma ilex1_name : forall n rest, iso_name n = true -> good_rest rest ->
  ilex1 (47 :: n ++ rest) = (TName n, rest).
Proof.
  intros n rest H G. unfold ilex1. rewrite iskip_start by reflexivity.
  unfold itok. cbn [N.eqb Pos.eqb]. rewrite (iname_raw n rest H (good_rest_istop _ G)). reflexivity.
Qed.

(** the repaired writer's escaper: every name of bytes < 256 *)
Definition iesc_byte_ok (c : N) : bool :=
  if iso_plain c then iregular c && negb (c =? 35)
  else iregular 35 &&
       match ihex2 (hexdig (c / 16)) (hexdig (c mod 16)) with Some v => v =? c | None => false end.
Lemma iesc_byte_sweep : forall c, c < 256 -> iesc_byte_ok c = true.
Proof. apply allb_spec. vm_compute. reflexivity. Qed.
Lemma iname_esc_iso : forall n rest, bytes_ok n = true -> istop rest -> iname (esc_iso n ++ rest) = Some (n, rest).
Proof.
  induction n as [|c n IH]; intros rest H D.
  - cbn [esc_iso app]. destruct rest as [|d r]; [reflexivity|]. cbn in D. cbn [iname]. rewrite D. reflexivity.
  - cbn [bytes_ok forallb] in H. apply andb_true_iff in H. destruct H as [Hb Hs].
    unfold byte_ok in Hb. apply N.ltb_lt in Hb.
    pose proof (iesc_byte_sweep c Hb) as K. unfold iesc_byte_ok in K.
    cbn [esc_iso]. destruct (iso_plain c).
    + apply andb_true_iff in K. destruct K as [K1 K2]. apply negb_true_iff in K2.
      cbn [app iname]. rewrite K1, K2. cbn [negb]. rewrite (IH rest Hs D). reflexivity.
    + apply andb_true_iff in K. destruct K as [_ K].
      destruct (ihex2 (hexdig (c / 16)) (hexdig (c mod 16))) as [v|] eqn:E; [|discriminate].
      apply N.eqb_eq in K. subst v.
      cbn [app iname]. change (iregular 35) with true. change (35 =? 35) with true. cbn [negb]. cbv iota.
      rewrite E, (IH rest Hs D). reflexivity.
Qed.
Lemma ilex1_esc_iso_name : forall n rest, bytes_ok n = true -> good_rest rest ->
  ilex1 (47 :: esc_iso n ++ rest) = (TName n, rest).
Proof.
  intros n rest H G. unfold ilex1. rewrite iskip_start by reflexivity.
  unfold itok. cbn [N.eqb Pos.eqb]. rewrite (iname_esc_iso n rest H (good_rest_istop _ G)). reflexivity.
Qed.

(** ** the tree *)
Section IGen.
Variable nm : bytes -> bytes.
Variable nok : bytes -> bool.
Hypothesis Hnm : forall n rest, nok n = true -> good_rest rest -> ilex1 (47 :: nm n ++ rest) = (TName n, rest).
Local Notation iwfg := (iso_wf_gen nok).

Definition ILexP (v : obj) : Prop :=
  iwfg v = true -> forall rest, good_rest rest -> ILexes (ser nm v ++ rest) (itoks v) rest.

Lemma ilexes_ref : forall n g, ILexP (ORef n g).
Proof.
  intros n g W rest G.
  cbn [ser itoks]. rewrite <- app_assoc. cbn [app]. rewrite <- app_assoc. cbn [app].
  eapply ILexes_tok with (r := 32 :: dec g ++ 32 :: 82 :: rest);
    [apply ilex1_nat; reflexivity | reflexivity | apply app_longer, dec_nonempty|].
  apply ILexes_ws; [reflexivity|].
  eapply ILexes_tok with (r := 32 :: 82 :: rest);
    [apply ilex1_nat; reflexivity | reflexivity | apply app_longer, dec_nonempty|].
  apply ILexes_ws; [reflexivity|].
  apply (ILexes_one kw_R rest); [|reflexivity | discriminate].
  apply ilex1_kw; [discriminate | reflexivity | reflexivity | exact G].
Qed.

Lemma ilexes_arr_end : forall rest, ILexes (93 :: rest) [TArrE] rest.
Proof. intro. eapply ILexes_tok; [reflexivity | reflexivity | cbn [length]; lia | apply ILexes_nil]. Qed.

Lemma ilexes_elems : forall l, Forall ILexP l -> forallb iwfg l = true -> forall rest,
  ILexes (ser_elems (ser nm) l ++ 93 :: rest) (flat_map itoks l ++ [TArrE]) rest.
Proof.
  induction 1 as [|a r Pa Pr IH]; intros W rest.
  - apply ilexes_arr_end.
  - cbn [forallb] in W. apply andb_true_iff in W. destruct W as [Wa Wr].
    cbn [flat_map]. rewrite <- app_assoc.
    destruct r as [|b r].
    + rewrite ser_elems_one. cbn [flat_map app].
      eapply ILexes_app; [apply (Pa Wa), good_rest_rb | apply ilexes_arr_end].
    + rewrite ser_elems_cons2. rewrite <- app_assoc. cbn [app].
      eapply ILexes_app; [apply (Pa Wa), good_rest_sp|].
      apply ILexes_ws; [reflexivity|]. apply IH. exact Wr.
Qed.

Lemma ilexes_arr : forall l, Forall ILexP l -> ILexP (OArr l).
Proof.
  intros l H W rest G. cbn [iso_wf_gen] in W.
  cbn [ser itoks]. rewrite <- app_comm_cons, <- app_assoc. cbn [app].
  eapply ILexes_tok with (r := ser_elems (ser nm) l ++ 93 :: rest);
    [reflexivity | reflexivity | cbn [length]; lia|].
  apply ilexes_elems; assumption.
Qed.

Lemma ilexes_entries : forall L, Forall (fun kv => ILexP (snd kv)) L ->
  forallb (fun kv => nok (fst kv) && iwfg (snd kv)) L = true -> forall rest,
  ILexes (ser_entries nm (map (on_snd (ser nm)) L) ++ 10 :: 62 :: 62 :: rest)
         (flat_map ientry_toks L ++ [TDictE]) rest.
Proof.
  induction 1 as [|kv L Pkv PL IH]; intros W rest.
  - cbn [map ser_entries flat_map app]. apply ILexes_ws; [reflexivity|].
    eapply ILexes_tok; [reflexivity | reflexivity | cbn [length]; lia | apply ILexes_nil].
  - cbn [forallb] in W. apply andb_true_iff in W. destruct W as [Wkv WL].
    apply andb_true_iff in Wkv. destruct Wkv as [Wk Wv].
    cbn [map flat_map]. rewrite ser_entries_cons. unfold ser_entry, on_snd at 1 2. cbn [fst snd].
    unfold ientry_toks at 1.
    rewrite <- !app_assoc. cbn [app]. rewrite <- !app_assoc. cbn [app].
    apply ILexes_ws; [reflexivity|].
    eapply ILexes_tok.
    { apply Hnm; [exact Wk | apply good_rest_sp]. }
    { reflexivity. }
    { apply cons_app_longer. }
    apply ILexes_ws; [reflexivity|].
    eapply ILexes_app; [apply (Pkv Wv), good_rest_entries|].
    apply IH. exact WL.
Qed.

Lemma ilexes_dict : forall l, Forall (fun kv => ILexP (snd kv)) l -> ILexP (ODict l).
Proof.
  intros l H W rest G. cbn [iso_wf_gen] in W.
  rewrite ser_dict, itoks_dict. rewrite <- !app_comm_cons. rewrite <- app_assoc. cbn [app].
  eapply ILexes_tok with (r := ser_entries nm (map (on_snd (ser nm)) (sort_kv l)) ++ 10 :: 62 :: 62 :: rest);
    [reflexivity | reflexivity | cbn [length]; lia|].
  apply ilexes_entries; [apply sort_kv_Forall; exact H | apply forallb_sort_kv; exact W].
Qed.

Lemma ilexes_ser : forall v, ILexP v.
Proof.
  induction v using obj_ind'; try (apply ilexes_arr; assumption); try (apply ilexes_dict; assumption);
    try apply ilexes_ref; intros W rest G; cbn [iso_wf_gen] in W.
  - apply (ILexes_one (ser nm ONull)); [|reflexivity | discriminate].
    apply ilex1_kw; [discriminate | reflexivity | reflexivity | exact G].
  - apply (ILexes_one (ser nm (OBool b))); [|reflexivity | destruct b; discriminate].
    destruct b; (apply ilex1_kw; [discriminate | reflexivity | reflexivity | exact G]).
  - apply (ILexes_one (ser nm (OInt z))); [apply ilex1_int; exact G | reflexivity | apply dec_z_nonempty].
  - apply (ILexes_one (ser nm (OReal n m))); [apply ilex1_real; exact G | | apply ser_real_nonempty].
    unfold real_tok. destruct (m mod 1000000 =? 0); reflexivity.
  - apply (ILexes_one (ser nm (OStr s))); [|reflexivity | discriminate].
    cbn [ser]. rewrite <- app_comm_cons, <- app_assoc. apply ilex1_str. exact W.
  - apply (ILexes_one (ser nm (OHex s))); [|reflexivity | discriminate].
    cbn [ser]. rewrite <- app_comm_cons, <- app_assoc. apply ilex1_hex. exact W.
  - apply (ILexes_one (ser nm (OName n))); [|reflexivity | discriminate].
    cbn [ser]. rewrite <- app_comm_cons. apply Hnm; assumption.
Qed.

Lemma ilex_all_ser_gen : forall v rest f, iwfg v = true -> good_rest rest -> (length (itoks v) <= f)%nat ->
  ilex_all f (ser nm v ++ rest) = itoks v ++ ilex_all (f - length (itoks v)) rest.
Proof. intros v rest f W G Hf. apply ILexes_lex_all; [apply ilexes_ser; assumption | exact Hf]. Qed.

Lemma ilex_all_ser_top : forall v, iwfg v = true ->
  ilex_all (S (length (ser nm v))) (ser nm v) = itoks v ++ [TEof].
Proof.
  intros v W. pose proof (ILexes_len _ _ _ (ilexes_ser v W [] I)) as L.
  rewrite app_nil_r in L. cbn [length] in L.
  pose proof (ilex_all_ser_gen v [] (S (length (ser nm v))) W I) as K. rewrite app_nil_r in K.
  rewrite K by lia. f_equal.
  destruct (S (length (ser nm v)) - length (itoks v))%nat eqn:E; [lia | reflexivity].
Qed.

(** * Layer 2 *)
(** the tokens after an integer are not "integer R" *)
Definition inokw (ts : list token) : bool :=
  match ts with TInt _ :: TKw _ :: _ => false | _ => true end.
Definition nokw1 (ts : list token) : bool :=
  match ts with TKw _ :: _ => false | _ => true end.

Lemma iparse_int_plain : forall i rest, inokw rest = true -> iparse_int i rest = (PInt i, rest).
Proof.
  intros i rest H. unfold iparse_int. destruct rest as [|t r]; [reflexivity|].
  destruct t; try reflexivity. destruct r as [|t2 r2]; [reflexivity|].
  destruct t2; try reflexivity. discriminate.
Qed.

Lemma itoks_hd : forall v, exists t ts, itoks v = t :: ts /\ vstart t = true.
Proof.
  destruct v; cbn [itoks]; try (eexists; eexists; split; [reflexivity | reflexivity]).
  unfold real_tok. destruct (m mod 1000000 =? 0); eexists; eexists; split; reflexivity.
Qed.

Lemma nokw1_flat : forall r rest, nokw1 (flat_map itoks r ++ TArrE :: rest) = true.
Proof.
  intros [|b r] rest; [reflexivity|]. cbn [flat_map]. rewrite <- app_assoc.
  destruct (itoks_hd b) as (t & ts & E & S). rewrite E. cbn [app nokw1].
  destruct t; try discriminate; reflexivity.
Qed.
Lemma inokw_itoks : forall v Y, nokw1 Y = true -> inokw (itoks v ++ Y) = true.
Proof.
  intros v Y H.
  assert (K : forall z, inokw (TInt z :: Y) = true).
  { intro z. cbn [inokw]. destruct Y as [|t Y']; [reflexivity|]. destruct t; try reflexivity. discriminate. }
  destruct v; cbn [itoks app]; try reflexivity; try apply K.
  unfold real_tok. destruct (m mod 1000000 =? 0); [apply K | reflexivity].
Qed.
Lemma inokw_flat : forall r rest, inokw (flat_map itoks r ++ TArrE :: rest) = true.
Proof.
  intros [|b r] rest; [reflexivity|]. cbn [flat_map]. rewrite <- app_assoc.
  apply inokw_itoks, nokw1_flat.
Qed.
Lemma inokw_entries : forall L rest, inokw (flat_map ientry_toks L ++ TDictE :: rest) = true.
Proof. intros [|kv L] rest; reflexivity. Qed.

Definition IParseP (v : obj) : Prop :=
  iwfg v = true -> forall rest fuel, inokw rest = true -> (2 * length (itoks v) <= fuel)%nat ->
  iparse_toks fuel (itoks v ++ rest) = Some (norm v, rest).

Lemma iparse_elems : forall l, Forall IParseP l -> forallb iwfg l = true ->
  forall rest fuel, (2 * length (flat_map itoks l) + 1 <= fuel)%nat ->
  iparse_arr fuel (flat_map itoks l ++ TArrE :: rest) = Some (map norm l, rest).
Proof.
  induction 1 as [|a r Pa Pr IH]; intros W rest fuel Hf.
  - destruct fuel as [|f]; [cbn in Hf; lia|]. reflexivity.
  - cbn [forallb] in W. apply andb_true_iff in W. destruct W as [Wa Wr].
    destruct fuel as [|f]; [lia|].
    cbn [flat_map] in *. rewrite app_length in Hf. rewrite <- app_assoc.
    set (X := flat_map itoks r ++ TArrE :: rest).
    destruct (itoks_hd a) as (t & ts & E & S).
    assert (L : (1 <= length (itoks a))%nat) by (rewrite E; cbn [length]; lia).
    pose proof (Pa Wa X f (inokw_flat r rest) ltac:(lia)) as K.
    pose proof (IH Wr rest f ltac:(lia)) as K2. fold X in K2.
    rewrite E in K |- *. cbn [app iparse_toks] in K. cbn [app iparse_arr map].
    destruct t; try discriminate; rewrite K, K2; reflexivity.
Qed.

Lemma iparse_entries : forall L, Forall (fun kv => IParseP (snd kv)) L ->
  forallb (fun kv => iwfg (snd kv)) L = true ->
  forall rest fuel, (2 * length (flat_map ientry_toks L) + 1 <= fuel)%nat ->
  iparse_dict fuel (flat_map ientry_toks L ++ TDictE :: rest) = Some (map (on_snd norm) L, rest).
Proof.
  induction 1 as [|kv L Pkv PL IH]; intros W rest fuel Hf.
  - destruct fuel as [|f]; [cbn in Hf; lia|]. reflexivity.
  - cbn [forallb] in W. apply andb_true_iff in W. destruct W as [Wv WL].
    destruct fuel as [|f]; [lia|].
    cbn [flat_map] in *. unfold ientry_toks at 1 in Hf. unfold ientry_toks at 1.
    rewrite app_length in Hf. cbn [length] in Hf. rewrite <- app_assoc. cbn [app].
    set (X := flat_map ientry_toks L ++ TDictE :: rest).
    destruct (itoks_hd (snd kv)) as (t & ts & E & S).
    assert (Lt : (1 <= length (itoks (snd kv)))%nat) by (rewrite E; cbn [length]; lia).
    pose proof (Pkv Wv X f (inokw_entries L rest) ltac:(lia)) as K.
    pose proof (IH WL rest f ltac:(lia)) as K2. fold X in K2.
    rewrite E in K |- *. cbn [app iparse_toks] in K. cbn [app iparse_dict map].
    rewrite K, K2. reflexivity.
Qed.

Lemma iparse_toks_ser_gen : forall v, IParseP v.
Proof.
  induction v using obj_ind'; intros W rest fuel R Hf.
  - destruct fuel; [cbn in Hf; lia | reflexivity].
  - destruct fuel; [cbn in Hf; lia | reflexivity].
  - destruct fuel; [cbn in Hf; lia|]. cbn [itoks app iparse_toks iparse_tok norm].
    rewrite iparse_int_plain by exact R. reflexivity.
  - destruct fuel; [cbn in Hf; lia|]. cbn [itoks app iparse_toks norm]. unfold real_tok.
    destruct (m mod 1000000 =? 0); [|reflexivity]. cbn [iparse_tok].
    rewrite iparse_int_plain by exact R. reflexivity.
  - destruct fuel; [cbn in Hf; lia | reflexivity].
  - destruct fuel; [cbn in Hf; lia | reflexivity].
  - destruct fuel; [cbn in Hf; lia | reflexivity].
  - cbn [iso_wf_gen] in W.
    cbn [itoks length] in Hf. rewrite app_length in Hf. cbn [length] in Hf.
    destruct fuel as [|f]; [lia|].
    cbn [itoks norm]. rewrite <- app_comm_cons, <- app_assoc. cbn [app iparse_toks iparse_tok].
    rewrite (iparse_elems l H W rest f) by lia. reflexivity.
  - cbn [iso_wf_gen] in W. rewrite itoks_dict in *. rewrite norm_dict.
    cbn [length] in Hf. rewrite app_length in Hf. cbn [length] in Hf.
    destruct fuel as [|f]; [lia|].
    rewrite <- app_comm_cons, <- app_assoc. cbn [app iparse_toks iparse_tok].
    rewrite (iparse_entries (sort_kv l)).
    + reflexivity.
    + apply sort_kv_Forall. exact H.
    + apply forallb_sort_kv. revert W. apply forallb_impl. intros x Hx. apply andb_true_iff in Hx. tauto.
    + lia.
  - destruct fuel; [cbn in Hf; lia|]. cbn [itoks app iparse_toks iparse_tok norm iparse_int].
    change (bytes_eqb kw_R kw_R) with true.
    replace (0 <=? Z.of_N n)%Z with true by lia. replace (0 <=? Z.of_N g)%Z with true by lia.
    cbn [andb]. rewrite !N2Z.id. reflexivity.
Qed.

(** * The nested theorem against the ISO-shaped reader *)
Theorem ser_iso_roundtrip_gen : forall v, iwfg v = true -> iso_parse (ser nm v) = Some (norm v).
Proof.
  intros v W. unfold iso_parse. rewrite (ilex_all_ser_top v W). cbv zeta.
  rewrite (iparse_toks_ser_gen v W [TEof] _ eq_refl); [reflexivity|].
  rewrite app_length. lia.
Qed.

End IGen.

Definition ilex_all_ser := ilex_all_ser_gen esc_iso bytes_ok ilex1_esc_iso_name.
Definition iparse_toks_ser := iparse_toks_ser_gen bytes_ok.
Theorem ser_iso_roundtrip : forall v, iso_wf v = true -> iso_parse (ser esc_iso v) = Some (norm v).
Proof. exact (ser_iso_roundtrip_gen esc_iso bytes_ok ilex1_esc_iso_name). Qed.
(** record about the writer before the repair (names raw: ISO-regular names only) *)
Theorem ser_iso_roundtrip_pinned : forall v, iso_wf_pinned v = true -> iso_parse (ser raw_name v) = Some (norm v).
Proof. exact (ser_iso_roundtrip_gen raw_name iso_name ilex1_name). Qed.

(** * [wf] values the ISO reader also reads back: no CR in literal strings.  (Before the repair
    the names also had to avoid NUL and braces, regular for the library but not for ISO; the
    repaired writer escapes them, so names no longer matter.) *)
Fixpoint iso_extra (v : obj) : bool :=
  match v with
  | OStr s => no_cr s
  | OArr l => forallb iso_extra l
  | ODict l => forallb (fun kv => iso_extra (snd kv)) l
  | _ => true
  end.

Lemma wf_iso_wf : forall v, wf v = true -> iso_extra v = true -> iso_wf v = true.
Proof.
  unfold wf, iso_wf.
  induction v using obj_ind'; intros W X; cbn [wf_gen iso_extra iso_wf_gen] in *; try reflexivity; try assumption.
  - apply andb_true_iff in W. destruct W as [W _].
    induction H as [|a r Pa Pr IH]; [reflexivity|].
    cbn [forallb] in *. apply andb_true_iff in W. apply andb_true_iff in X.
    destruct W as [Wa Wr], X as [Xa Xr]. rewrite (Pa Wa Xa), (IH Wr Xr). reflexivity.
  - induction H as [|kv r Pa Pr IH]; [reflexivity|].
    cbn [forallb] in *. apply andb_true_iff in W. apply andb_true_iff in X.
    destruct W as [Wa Wr], X as [Xv Xr].
    apply andb_true_iff in Wa. destruct Wa as [Wk Wv].
    rewrite Wk, (Pa Wv Xv), (IH Wr Xr). reflexivity.
Qed.

Theorem ser_both_readers : forall v, wf v = true -> iso_extra v = true ->
  parse (ser esc_iso v) = Some (norm v) /\ iso_parse (ser esc_iso v) = Some (norm v).
Proof.
  intros v W X. split; [apply ser_parse_roundtrip; exact W | apply ser_iso_roundtrip, wf_iso_wf; assumption].
Qed.

(** * Witnesses: satisfiability, and where the two readers part *)
Definition isample : obj :=
  OArr [OInt (-9223372036854775808)%Z; OReal true 1500000; OReal false 5000000; OReal true 0;
        OStr (b "a(b\)" ++ [10; 0; 255]); OHex [0; 255; 16];
        ODict [(b "Zed", OArr [OInt 1; OInt 0; ORef 7 0]); (b "A", OName (b "R")); (b "", ONull)];
        OBool true; OArr []; ODict []; ORef 9999999 65535].
Example isample_ok : wf isample = true /\ iso_extra isample = true /\ iso_wf isample = true
  /\ iso_parse (ser esc_iso isample) = Some (norm isample)
  /\ wf sample_names = true /\ iso_extra sample_names = false
  /\ iso_parse (ser esc_iso (OArr [OName (b "My Image"); OName [65; 0; 66]; OName (b "A{B}#"); ODict [(b "k 1", OName (b "(x)"))]]))
     = Some (norm (OArr [OName (b "My Image"); OName [65; 0; 66]; OName (b "A{B}#"); ODict [(b "k 1", OName (b "(x)"))]])).
Proof. vm_compute. repeat split. Qed.

(** values outside [wf] (known findings of the library's reader) that the ISO reader reads back *)
Definition isample2 : obj :=
  OArr [OInt 1; OInt 0; OName (b "R"); ORef 99999999 70000; OReal false 9223372036854775808000000].
Example isample2_ok : wf isample2 = false /\ iso_wf isample2 = true
  /\ iso_parse (ser esc_iso isample2) = Some (norm isample2).
Proof. vm_compute. repeat split. Qed.

(** CR in a literal string: the library keeps it, an ISO reader yields LF *)
Lemma iso_cr_refuted : exists v, wf v = true /\ iso_wf v = false
  /\ parse (ser esc_iso v) = Some (norm v)
  /\ iso_parse (ser esc_iso v) = Some (PStr [97; 10; 98]) /\ norm v = PStr [97; 13; 98].
Proof. exists (OStr [97; 13; 98]). vm_compute. repeat split. Qed.

(** record about the writer before the repair — NUL or a brace in a RAW name: regular for the
    library, a token boundary for ISO; the repaired writer escapes both and the readers agree *)
Lemma iso_name_refuted_pinned : exists v1 v2, wf_pinned v1 = true /\ wf_pinned v2 = true
  /\ parse (ser raw_name v1) = Some (norm v1) /\ parse (ser raw_name v2) = Some (norm v2)
  /\ iso_parse (ser raw_name v1) = Some (PName [65]) /\ iso_parse (ser raw_name v2) = Some (PName [65])
  /\ iso_parse (ser esc_iso v1) = Some (norm v1) /\ iso_parse (ser esc_iso v2) = Some (norm v2).
Proof. exists (OName [65; 0; 66]), (OName [65; 123; 66]). vm_compute. repeat split. Qed.
