(** C09 — an ISO 32000-1 §7.2/§7.3-shaped reference reader, written from the standard and not
    from parser/lexer.rs.  Executable definitions only (proofs: LexFull.v).

    Differences from the library's reader that matter for the round trip:
      * white space is NUL HT LF FF CR SP (7.2.2 Table 1): NUL separates tokens;
      * delimiters are ( ) < > [ ] { } / % (Table 2): braces end a name or a number;
      * a comment is white space (7.2.3);
      * inside a literal string an end-of-line marker (CR, LF or CR LF) not preceded by a
        backslash reads as ONE LF; backslash + end-of-line is a line continuation (7.3.4.2);
      * '#' in a name must be followed by two hexadecimal digits (7.3.5), no sign accepted;
      * numbers have no exponent part (7.3.3); any run of regular characters that is neither a
        number nor true/false/null is a keyword, in particular [R] (7.3.10), which therefore
        cannot be confused with the name /R;
      * nothing is skipped "leniently" (no ';', no control or C1 bytes dropped).
    Shared with Model.v: the data types [token], [pobj] and the generic helpers [take_digits],
    [dval], [hexv], [is_oct], [pair_nib], [bytes_eqb] (longest digit prefix, decimal value, value
    of a hex digit, pairing nibbles with a final 0) — none of which encodes a lexical rule. *)
From OxVerif Require Import Base.Util C09.Model.

(** * 7.2.2 character classes *)
Definition iws (c : N) : bool :=
  (c =? 0) || (c =? 9) || (c =? 10) || (c =? 12) || (c =? 13) || (c =? 32).
Definition idelim (c : N) : bool :=
  (c =? 40) || (c =? 41) || (c =? 60) || (c =? 62) || (c =? 91) || (c =? 93)
  || (c =? 123) || (c =? 125) || (c =? 47) || (c =? 37).
Definition iregular (c : N) : bool := negb (iws c) && negb (idelim c).

(** * 7.2.3 white space and comments between tokens ([cm]: inside a comment) *)
Fixpoint iskip (cm : bool) (bs : bytes) : bytes :=
  match bs with
  | [] => []
  | c :: r => if cm then (if (c =? 10) || (c =? 13) then iskip false r else iskip true r)
              else if iws c then iskip false r
              else if c =? 37 then iskip true r
              else bs
  end.

(** a maximal run of regular characters *)
Fixpoint irun (bs : bytes) : bytes * bytes :=
  match bs with
  | c :: r => if iregular c then let '(w, rest) := irun r in (c :: w, rest) else ([], bs)
  | [] => ([], [])
  end.

(** * 7.3.3 numbers: optional sign, digits, at most one point, at least one digit; no exponent.
    A real carries its value in millionths when it has at most six fraction digits. *)
Definition inum_body (neg : bool) (u : bytes) : option token :=
  let '(ip, r1) := take_digits u in
  match r1 with
  | [] => match ip with
          | [] => None
          | _ => Some (TInt (if neg then - Z.of_N (dval 0 ip) else Z.of_N (dval 0 ip))%Z)
          end
  | c :: r2 =>
      if c =? 46 then
        let '(fp, r3) := take_digits r2 in
        match r3, ip ++ fp with
        | [], _ :: _ =>
            Some (TReal neg (if Nat.leb (length fp) 6
                             then Some (dval 0 ip * 1000000 + dval 0 fp * 10 ^ (6 - N.of_nat (length fp)))
                             else None))
        | _, _ => None
        end
      else None
  end.
Definition inumber (w : bytes) : option token :=
  match w with
  | c :: u => if c =? 43 then inum_body false u
              else if c =? 45 then inum_body true u
              else inum_body false w
  | [] => None
  end.

(** * 7.3.4.2 literal strings (after the opening parenthesis; [d] = open inner parentheses) *)
Definition iesc (e : N) : N :=
  if e =? 110 then 10 else if e =? 114 then 13 else if e =? 116 then 9
  else if e =? 98 then 8 else if e =? 102 then 12
  else e.      (* \( \) \\ ; for any other character the backslash is ignored *)
Definition icons (c : N) (r : option (bytes * bytes)) : option (bytes * bytes) :=
  match r with Some (s, rest) => Some (c :: s, rest) | None => None end.

Fixpoint istr (bs : bytes) (d : nat) : option (bytes * bytes) :=
  match bs with
  | [] => None
  | c :: r =>
      if c =? 92 then
        match r with
        | [] => None
        | e :: r1 =>
            if is_oct e then       (* \ddd: one to three octal digits, high-order overflow ignored *)
              match r1 with
              | d1 :: r2 =>
                  if is_oct d1 then
                    match r2 with
                    | d2 :: r3 =>
                        if is_oct d2
                        then icons ((((e - 48) * 8 + (d1 - 48)) * 8 + (d2 - 48)) mod 256) (istr r3 d)
                        else icons ((e - 48) * 8 + (d1 - 48)) (istr r2 d)
                    | [] => icons ((e - 48) * 8 + (d1 - 48)) (istr r2 d)
                    end
                  else icons (e - 48) (istr r1 d)
              | [] => icons (e - 48) (istr r1 d)
              end
            else if e =? 13 then   (* line continuation: backslash CR, backslash CR LF *)
              match r1 with
              | l :: r2 => if l =? 10 then istr r2 d else istr r1 d
              | [] => istr r1 d
              end
            else if e =? 10 then istr r1 d
            else icons (iesc e) (istr r1 d)
        end
      else if c =? 13 then         (* an end-of-line marker reads as one LF *)
        match r with
        | l :: r1 => if l =? 10 then icons 10 (istr r1 d) else icons 10 (istr r d)
        | [] => icons 10 (istr r d)
        end
      else if c =? 40 then icons c (istr r (S d))
      else if c =? 41 then
        match d with
        | O => Some ([], r)
        | S d' => icons c (istr r d')
        end
      else icons c (istr r d)
  end.

(** * 7.3.4.3 hexadecimal strings (after '<'): white space ignored, odd count padded with 0 *)
Fixpoint ihex (bs : bytes) : option (list N * bytes) :=
  match bs with
  | [] => None
  | c :: r =>
      if c =? 62 then Some ([], r)
      else match hexv c with
           | Some v => match ihex r with
                       | Some (l, rest) => Some (v :: l, rest)
                       | None => None
                       end
           | None => if iws c then ihex r else None
           end
  end.

(** * 7.3.5 names (after '/'): regular characters, #xx for anything else *)
Definition ihex2 (h1 h2 : N) : option N :=
  match hexv h1, hexv h2 with
  | Some a, Some b => Some (a * 16 + b)
  | _, _ => None
  end.
Fixpoint iname (bs : bytes) : option (bytes * bytes) :=
  match bs with
  | [] => Some ([], [])
  | c :: r =>
      if negb (iregular c) then Some ([], bs)
      else if c =? 35 then
        match r with
        | h1 :: h2 :: r' => match ihex2 h1 h2 with
                            | Some v => icons v (iname r')
                            | None => None
                            end
        | _ => None
        end
      else icons c (iname r)
  end.

(** * one token *)
Definition iword (w : bytes) : token :=
  match inumber w with
  | Some t => t
  | None => if bytes_eqb w w_true then TBool true
            else if bytes_eqb w w_false then TBool false
            else if bytes_eqb w w_null then TNull
            else TKw w
  end.

Definition itok (bs : bytes) : token * bytes :=
  match bs with
  | [] => (TEof, [])
  | c :: r =>
      if c =? 47 then
        match iname r with Some (n, rest) => (TName n, rest) | None => (TErr, []) end
      else if c =? 40 then
        match istr r 0 with Some (s, rest) => (TStr s, rest) | None => (TErr, []) end
      else if c =? 60 then
        match r with
        | 60 :: r' => (TDictS, r')
        | _ => match ihex r with
               | Some (l, rest) => (TStr (pair_nib l), rest)
               | None => (TErr, [])
               end
        end
      else if c =? 62 then
        match r with 62 :: r' => (TDictE, r') | _ => (TErr, []) end
      else if c =? 91 then (TArrS, r)
      else if c =? 93 then (TArrE, r)
      else if iregular c then let '(w, rest) := irun bs in (iword w, rest)
      else (TErr, [])            (* ')' '{' '}' where an object is expected *)
  end.
Definition ilex1 (bs : bytes) : token * bytes := itok (iskip false bs).

Fixpoint ilex_all (fuel : nat) (bs : bytes) : list token :=
  match fuel with
  | O => [TErr]
  | S f => let '(t, r) := ilex1 bs in
           match t with
           | TEof => [TEof]
           | TErr => [TErr]
           | _ => t :: ilex_all f r
           end
  end.

(** * 7.3.6–7.3.10 objects over the token sequence.  An indirect reference is two
    non-negative integers followed by the keyword R. *)
Definition kw_R : bytes := [82].
Definition iparse_int (i : Z) (ts : list token) : pobj * list token :=
  match ts with
  | TInt g :: TKw w :: ts2 =>
      if bytes_eqb w kw_R && (0 <=? i)%Z && (0 <=? g)%Z
      then (PRef (Z.to_N i) (Z.to_N g), ts2) else (PInt i, ts)
  | _ => (PInt i, ts)
  end.

Fixpoint iparse_tok (fuel : nat) (t : token) (ts : list token) {struct fuel} : option (pobj * list token) :=
  match fuel with
  | O => None
  | S f =>
      match t with
      | TNull => Some (PNull, ts)
      | TBool b => Some (PBool b, ts)
      | TInt i => Some (iparse_int i ts)
      | TReal n m => Some (PReal n m, ts)
      | TStr s => Some (PStr s, ts)
      | TName n => Some (PName n, ts)
      | TArrS => match iparse_arr f ts with
                 | Some (l, ts') => Some (PArr l, ts')
                 | None => None
                 end
      | TDictS => match iparse_dict f ts with
                  | Some (l, ts') => Some (PDict l, ts')
                  | None => None
                  end
      | _ => None
      end
  end
with iparse_arr (fuel : nat) (ts : list token) {struct fuel} : option (list pobj * list token) :=
  match fuel with
  | O => None
  | S f =>
      match ts with
      | [] => None
      | TArrE :: ts1 => Some ([], ts1)
      | t :: ts1 => match iparse_tok f t ts1 with
                    | Some (o, ts2) => match iparse_arr f ts2 with
                                       | Some (l, ts3) => Some (o :: l, ts3)
                                       | None => None
                                       end
                    | None => None
                    end
      end
  end
with iparse_dict (fuel : nat) (ts : list token) {struct fuel} : option (list (bytes * pobj) * list token) :=
  match fuel with
  | O => None
  | S f =>
      match ts with
      | TDictE :: ts1 => Some ([], ts1)
      | TName k :: t :: ts2 =>
          match iparse_tok f t ts2 with
          | Some (o, ts3) => match iparse_dict f ts3 with
                             | Some (l, ts4) => Some ((k, o) :: l, ts4)
                             | None => None
                             end
          | None => None
          end
      | _ => None
      end
  end.

Definition iparse_toks (fuel : nat) (ts : list token) : option (pobj * list token) :=
  match ts with [] => None | t :: r => iparse_tok fuel t r end.

Definition iso_parse (bs : bytes) : option pobj :=
  let ts := ilex_all (S (length bs)) bs in
  match iparse_toks (2 * length ts) ts with
  | Some (o, _) => Some o
  | None => None
  end.

(** * values whose serialization an ISO reader reads back *)
Definition iso_char (c : N) : bool := iregular c && negb (c =? 35).
Definition iso_name (n : bytes) : bool := forallb iso_char n.
Definition no_cr (s : bytes) : bool := forallb (fun c => negb (c =? 13)) s.
(** [nok]: the names the emitter in use can carry (repaired writer: every name of bytes;
    before the repair: ISO-regular names without '#') *)
Fixpoint iso_wf_gen (nok : bytes -> bool) (v : obj) : bool :=
  match v with
  | OStr s => no_cr s
  | OHex s => bytes_ok s
  | OName n => nok n
  | OArr l => forallb (iso_wf_gen nok) l
  | ODict l => forallb (fun kv => nok (fst kv) && iso_wf_gen nok (snd kv)) l
  | _ => true
  end.
Definition iso_wf : obj -> bool := iso_wf_gen bytes_ok.
Definition iso_wf_pinned : obj -> bool := iso_wf_gen iso_name.
