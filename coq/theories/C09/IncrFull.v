(** C09 — the nested theorem for the INCREMENTAL writer ([ser_incr], Model.v):
      for every object tree v with [wf_incr v]  (arrays and dictionaries nested arbitrarily; names of
      any bytes, #XX-escaped by [esc_name]; strings of any bytes, always written hex; dictionaries
      written "<< /k v /k v >>" sorted by key)       parse (ser_incr v) = Some (norm v).
    No [canon] is needed: [ser_incr] writes the entries in [sort_kv] order, the parser keeps reading
    order, and [norm] lists the entries in [sort_kv] order; [sort_kv] commutes with maps on the
    values ([sort_kv_map]).
    Layer 1 (bytes -> tokens) is proved here for [ser_incr] with the SAME token sequence [toks v] as
    the main writer's (a hex string and a literal string are both [TStr]); leaves go through
    Full.v's [lexes_ser] at the instance [esc_name]/[bytes_ok].  Layer 2 (tokens -> value) is Full.v's
    [parse_toks_ser_gen] unchanged.  Nothing of the model is restated. *)
From OxVerif Require Import Base.Util C09.Model C09.Tokens C09.FracSweep C09.Proofs C09.Reals C09.Full.
From OxVerif Require C21.Tok.
Require Import Lia ZifyBool.

(** * the values covered: everything [ser_incr] models.  Excluded: reals (not modelled: [ser_incr]
    returns []), and the open classes of the main theorem that do not involve reals ([int int /R]
    inside an array: [arr_ok]; object numbers > 9 999 999 / generations > 65535 in references;
    integers outside i64 cannot exist in the source).  Names, keys and strings: any bytes (< 256). *)
Fixpoint wf_incr (v : obj) : bool :=
  match v with
  | ONull | OBool _ => true
  | OInt z => int_ok z
  | OReal _ _ => false
  | OStr s | OHex s => bytes_ok s
  | OName n => bytes_ok n
  | OArr l => forallb wf_incr l && arr_ok l
  | ODict l => forallb (fun kv => bytes_ok (fst kv) && wf_incr (snd kv)) l
  | ORef n g => (n <=? 9999999) && (g <=? 65535)
  end.

(** [wf_incr] is [wf] minus reals plus "literal strings are bytes" *)
Lemma wf_incr_wf : forall v, wf_incr v = true -> wf v = true.
Proof.
  unfold wf. induction v using obj_ind'; intro W; cbn [wf_incr wf_gen] in *; try exact W; try reflexivity.
  - discriminate.
  - apply andb_true_iff in W. destruct W as [W A]. rewrite A, andb_true_r. clear A.
    induction H as [|a r Pa Pr IH]; [reflexivity|].
    cbn [forallb] in *. apply andb_true_iff in W. destruct W as [Wa Wr].
    rewrite (Pa Wa), (IH Wr). reflexivity.
  - induction H as [|kv r Pk Pr IH]; [reflexivity|].
    cbn [forallb] in *. apply andb_true_iff in W. destruct W as [Wk Wr].
    apply andb_true_iff in Wk. destruct Wk as [Wk Wv].
    rewrite Wk, (Pk Wv), (IH Wr). reflexivity.
Qed.

(** * Layer 1 for [ser_incr] *)
Definition IncrLexP (v : obj) : Prop :=
  wf_incr v = true -> forall rest, good_rest rest -> Lexes (ser_incr v ++ rest) (toks v) rest.

Lemma incr_arr_end : forall rest, Lexes (93 :: rest) [TArrE] rest.
Proof. intro. eapply Lexes_tok; [reflexivity | reflexivity | cbn [length]; lia | apply Lexes_nil]. Qed.

Lemma incr_lexes_elems : forall l, Forall IncrLexP l -> forallb wf_incr l = true -> forall rest,
  Lexes (ser_elems ser_incr l ++ 93 :: rest) (flat_map toks l ++ [TArrE]) rest.
Proof.
  induction 1 as [|a r Pa Pr IH]; intros W rest.
  - apply incr_arr_end.
  - cbn [forallb] in W. apply andb_true_iff in W. destruct W as [Wa Wr].
    cbn [flat_map]. rewrite <- app_assoc.
    destruct r as [|b r].
    + rewrite ser_elems_one. cbn [flat_map app].
      eapply Lexes_app; [apply (Pa Wa), good_rest_rb | apply incr_arr_end].
    + rewrite ser_elems_cons2. rewrite <- app_assoc. cbn [app].
      eapply Lexes_app; [apply (Pa Wa), good_rest_sp|].
      apply Lexes_ws; [reflexivity|]. apply IH. exact Wr.
Qed.

Lemma ser_incr_arr : forall l, ser_incr (OArr l) = 91 :: ser_elems ser_incr l ++ [93].
Proof. reflexivity. Qed.

Lemma incr_lexes_arr : forall l, Forall IncrLexP l -> IncrLexP (OArr l).
Proof.
  intros l H W rest G. cbn [wf_incr] in W. apply andb_true_iff in W. destruct W as [W _].
  rewrite ser_incr_arr. cbn [toks]. rewrite <- app_comm_cons, <- app_assoc. cbn [app].
  eapply Lexes_tok with (r := ser_elems ser_incr l ++ 93 :: rest);
    [reflexivity | reflexivity | cbn [length]; lia|].
  apply incr_lexes_elems; assumption.
Qed.

(** one dictionary entry as the incremental writer puts it: "/key value " *)
Definition incr_entry (kv : bytes * bytes) : bytes := 47 :: esc_name (fst kv) ++ 32 :: snd kv ++ [32].

Lemma ser_incr_dict : forall l,
  ser_incr (ODict l) = 60 :: 60 :: 32 :: flat_map incr_entry (map (on_snd ser_incr) (sort_kv l)) ++ [62; 62].
Proof. intro l. cbn [ser_incr]. rewrite map_pair_on_snd, sort_kv_map. reflexivity. Qed.

Lemma incr_dict_end : forall rest, Lexes (62 :: 62 :: rest) [TDictE] rest.
Proof. intro. eapply Lexes_tok; [reflexivity | reflexivity | cbn [length]; lia | apply Lexes_nil]. Qed.

Lemma incr_lexes_entries : forall L, Forall (fun kv => IncrLexP (snd kv)) L ->
  forallb (fun kv => bytes_ok (fst kv) && wf_incr (snd kv)) L = true -> forall rest,
  Lexes (flat_map incr_entry (map (on_snd ser_incr) L) ++ 62 :: 62 :: rest)
        (flat_map entry_toks L ++ [TDictE]) rest.
Proof.
  induction 1 as [|kv L Pkv PL IH]; intros W rest.
  - cbn [map flat_map app]. apply incr_dict_end.
  - cbn [forallb] in W. apply andb_true_iff in W. destruct W as [Wkv WL].
    apply andb_true_iff in Wkv. destruct Wkv as [Wk Wv].
    cbn [map flat_map]. unfold incr_entry at 1, on_snd at 1 2. cbn [fst snd].
    unfold entry_toks at 1.
    rewrite <- !app_assoc. cbn [app]. rewrite <- !app_assoc. cbn [app]. rewrite <- !app_assoc. cbn [app].
    eapply Lexes_tok.
    { apply lex_esc_name; [exact Wk | apply good_rest_sp]. }
    { reflexivity. }
    { apply cons_app_longer. }
    apply Lexes_ws; [reflexivity|].
    eapply Lexes_app; [apply (Pkv Wv), good_rest_sp|].
    apply Lexes_ws; [reflexivity|].
    apply IH. exact WL.
Qed.

Lemma incr_lexes_dict : forall l, Forall (fun kv => IncrLexP (snd kv)) l -> IncrLexP (ODict l).
Proof.
  intros l H W rest G. cbn [wf_incr] in W.
  rewrite ser_incr_dict, toks_dict. rewrite <- !app_comm_cons. rewrite <- app_assoc. cbn [app].
  eapply Lexes_tok with (r := 32 :: flat_map incr_entry (map (on_snd ser_incr) (sort_kv l)) ++ 62 :: 62 :: rest);
    [reflexivity | reflexivity | cbn [length]; lia|].
  apply Lexes_ws; [reflexivity|].
  apply incr_lexes_entries; [apply sort_kv_Forall; exact H | apply forallb_sort_kv; exact W].
Qed.

(** leaves: [ser_incr] coincides with [ser esc_name] on null/bool/int/name/reference, and writes a
    literal string exactly as [ser] writes the hex string of the same bytes *)
Lemma incr_lexes : forall v, IncrLexP v.
Proof.
  induction v using obj_ind'; try (apply incr_lexes_arr; assumption); try (apply incr_lexes_dict; assumption);
    intros W rest G.
  - exact (lexes_ser esc_name bytes_ok lex_esc_name ONull W rest G).
  - exact (lexes_ser esc_name bytes_ok lex_esc_name (OBool b) W rest G).
  - exact (lexes_ser esc_name bytes_ok lex_esc_name (OInt z) W rest G).
  - discriminate.
  - exact (lexes_ser esc_name bytes_ok lex_esc_name (OHex s) W rest G).
  - exact (lexes_ser esc_name bytes_ok lex_esc_name (OHex s) W rest G).
  - exact (lexes_ser esc_name bytes_ok lex_esc_name (OName n) W rest G).
  - exact (lexes_ser esc_name bytes_ok lex_esc_name (ORef n g) W rest G).
Qed.

(** continuation form on [lex_all] itself *)
Lemma incr_lex_all_gen : forall v rest f, wf_incr v = true -> good_rest rest -> (length (toks v) <= f)%nat ->
  lex_all f (ser_incr v ++ rest) = toks v ++ lex_all (f - length (toks v)) rest.
Proof. intros v rest f W G Hf. apply Lexes_lex_all; [apply incr_lexes; assumption | exact Hf]. Qed.

Lemma incr_toks_le : forall v, wf_incr v = true -> (length (toks v) <= length (ser_incr v))%nat.
Proof.
  intros v W. pose proof (Lexes_len _ _ _ (incr_lexes v W [] I)) as K.
  rewrite app_nil_r in K. cbn [length] in K. lia.
Qed.

Lemma incr_lex_all_top : forall v, wf_incr v = true ->
  lex_all (S (length (ser_incr v))) (ser_incr v) = toks v ++ [TEof].
Proof.
  intros v W. pose proof (incr_toks_le v W) as L.
  pose proof (incr_lex_all_gen v [] (S (length (ser_incr v))) W I) as K. rewrite app_nil_r in K.
  rewrite K by lia. f_equal.
  destruct (S (length (ser_incr v)) - length (toks v))%nat eqn:E; [lia | reflexivity].
Qed.

(** * The nested theorem for the incremental writer *)
Theorem incr_parse_roundtrip : forall v, wf_incr v = true -> parse (ser_incr v) = Some (norm v).
Proof.
  intros v W. unfold parse. rewrite (incr_lex_all_top v W). cbv zeta.
  destruct (toks_hd v) as (t & ts & E & S).
  pose proof (parse_toks_ser_gen bytes_ok v (wf_incr_wf v W) [TEof] (4 * length (toks v ++ [TEof]) + 4)%nat eq_refl) as K.
  assert (A : ahead_ok (tokcls v) [TEof] = true) by (destruct (tokcls v); reflexivity).
  specialize (K A). rewrite app_length in K at 1.
  specialize (K ltac:(cbn [length]; lia)). rewrite app_length in K. rewrite <- app_length in K.
  rewrite E in K |- *. cbn [app parse_toks] in K. cbn [app next].
  destruct t; try discriminate; rewrite K; reflexivity.
Qed.

(** the shape the checker of channel [incr] judges by ([canon] on both sides) *)
Corollary incr_parse_roundtrip_canon : forall v, wf_incr v = true ->
  option_map canon (parse (ser_incr v)) = Some (canon (norm v)).
Proof. intros v W. rewrite (incr_parse_roundtrip v W). reflexivity. Qed.

(** * String level (reader after fix_name_utf8): every tree whose names are Rust Strings (valid
    UTF-8) reads back with the same Strings *)
Theorem incr_parse_roundtrip_strings : forall v, wf_incr v = true -> utf8_names v = true ->
  option_map strview (parse (ser_incr v)) = Some (norm v).
Proof. intros v W A. rewrite (incr_parse_roundtrip v W). cbn [option_map]. rewrite (strview_norm_utf8 v A). reflexivity. Qed.

Theorem incr_parse_strings_canon : forall v, wf_incr v = true -> utf8_names v = true ->
  parse_strings (ser_incr v) = Some (canon (norm v)).
Proof.
  intros v W A. unfold parse_strings. rewrite (incr_parse_roundtrip v W). cbn [option_map].
  rewrite (strview_norm_utf8 v A). reflexivity.
Qed.

(** * Link to the correspondence verdict of channel [incr]: on a [wf_incr] tree of Rust Strings whose
    implementation bytes equal the model's, the model bit and the property bit of [incr_code] are the
    SAME test ([parse_strings bs] IS [Some (canon (norm v))]), so "model agrees, property fails"
    (code 2) cannot be reported — and neither can "model differs, property holds" (code 1). *)
Theorem incr_code_bytes_agree : forall v bs p, wf_incr v = true -> utf8_names v = true ->
  bytes_eqb (ser_incr v) bs = true ->
  incr_code (v, bs, p) = code_of (opobj_eqb (Some (canon (norm v))) p) (opobj_eqb (Some (canon (norm v))) p).
Proof.
  intros v bs p W A E. unfold incr_code. rewrite E. cbn [andb].
  apply bytes_eqb_eq in E. subst bs. rewrite (incr_parse_strings_canon v W A). reflexivity.
Qed.
Theorem incr_code_never_2 : forall v bs p, wf_incr v = true -> utf8_names v = true ->
  incr_code (v, bs, p) <> 2.
Proof.
  intros v bs p W A. unfold incr_code. destruct (bytes_eqb (ser_incr v) bs) eqn:E; cbn [andb].
  - apply bytes_eqb_eq in E. subst bs. rewrite (incr_parse_strings_canon v W A).
    destruct (opobj_eqb (Some (canon (norm v))) p); vm_compute; discriminate.
  - destruct (opobj_eqb (Some (canon (norm v))) p); vm_compute; discriminate.
Qed.

(** * Non-vacuity: a dictionary containing an array containing a non-ASCII name (with a space and
    a solidus), a string with parentheses and a backslash, an integer, a reference, an empty
    dictionary and a nested dictionary whose keys need sorting; one key with a space *)
Definition incr_sample : obj :=
  ODict [(b "Kids", OArr [OName [195; 169; 32; 47; 35]; OStr (b "a(b)c\"); OInt (-3); ORef 12 0; ODict [];
                          ODict [(b "Z", ONull); (b "A", OBool true); (b "M", OHex [0; 255; 40])]]);
         (b "A B", OArr [OInt 1; OInt 2; OName (b "Q")])].
Example incr_sample_ok : wf_incr incr_sample = true /\ utf8_names incr_sample = true
  /\ ascii_names incr_sample = false /\ wf incr_sample = true
  /\ parse (ser_incr incr_sample) = Some (norm incr_sample)
  /\ parse_strings (ser_incr incr_sample) = Some (canon (norm incr_sample)).
Proof. vm_compute. repeat split. Qed.
(** the continuation lemma's hypotheses on a non-trivial continuation *)
Example incr_lex_all_hyps : wf_incr incr_sample = true /\ good_rest (bytes_of_string " 12 0 R]").
Proof. split; [vm_compute; reflexivity | cbn; auto]. Qed.
(** what [wf_incr] excludes: reals (not modelled), and the array collision of the main theorem *)
Example incr_excluded : wf_incr (OReal false 1500000) = false /\ ser_incr (OReal false 1500000) = []
  /\ wf_incr (OArr [OInt 1; OInt 0; OName name_R]) = false
  /\ parse (ser_incr (OArr [OInt 1; OInt 0; OName name_R])) = Some (PArr [PRef 1 0]).
Proof. vm_compute. repeat split. Qed.
