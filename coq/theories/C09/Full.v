(** C09 — the nested theorem: for every well-formed object tree (arrays and dictionaries nested
    arbitrarily, all leaf classes)   parse (ser esc_iso v) = Some (norm v).
    The development is generic in the name emitter [nm] and the names [nok] it can carry (Section
    Gen: the only thing asked of [nm] is that one emitted name followed by a writer continuation
    lexes back as that name); instantiated for the repaired writer ([esc_iso], every name of
    bytes) and, as a record, for the writer before the repair ([raw_name], regular names).

    Two layers, each in continuation style so that arrays/dictionaries compose:
      1. bytes -> tokens:  [Lexes (ser v ++ rest) (toks v) rest]  whenever [rest] is empty or starts
         with one of the bytes the writer puts after a value (SP, LF, ']');
      2. tokens -> value:  [parse_toks fuel (toks v ++ rest) = Some (norm v, rest)]  whenever the
         following tokens [rest] are such that the integer look-ahead pushes back exactly what it
         peeked ([rest_ok], [ahead_ok]).
    Nothing of the model is restated: [lex1], [lex_all], [parse_tok], [parse] are Model.v's. *)
From OxVerif Require Import Base.Util C09.Model C09.Tokens C09.FracSweep C09.Proofs C09.Reals.
From OxVerif Require C21.Tok.
Require Import Lia ZifyBool.

(** * Layer 1: the token sequence of [ser v] *)

(** [Lexes bs ts bs']: calling [lex1] repeatedly from [bs] yields the proper tokens [ts] and
    stops at [bs'] (white space between tokens may already have been skipped). *)
Inductive Lexes : bytes -> list token -> bytes -> Prop :=
| Lexes_nil : forall bs, Lexes bs [] bs
| Lexes_ws : forall c bs ts bs', is_ws c = true -> Lexes bs ts bs' -> Lexes (c :: bs) ts bs'
| Lexes_tok : forall bs t r ts bs', lex1 bs = (t, r) -> is_tok t = true ->
    (length r < length bs)%nat -> Lexes r ts bs' -> Lexes bs (t :: ts) bs'.

Lemma Lexes_len : forall bs ts bs', Lexes bs ts bs' -> (length ts + length bs' <= length bs)%nat.
Proof. induction 1; cbn [length] in *; lia. Qed.

Lemma lex_all_ws : forall f c bs, is_ws c = true -> lex_all f (c :: bs) = lex_all f bs.
Proof. intros [|f] c bs H; [reflexivity|]. cbn [lex_all lex1]. rewrite H. reflexivity. Qed.

Lemma Lexes_lex_all : forall bs ts bs', Lexes bs ts bs' -> forall f, (length ts <= f)%nat ->
  lex_all f bs = ts ++ lex_all (f - length ts) bs'.
Proof.
  induction 1; intros f Hf.
  - cbn [length app]. rewrite Nat.sub_0_r. reflexivity.
  - rewrite lex_all_ws by assumption. apply IHLexes. exact Hf.
  - cbn [length] in Hf. destruct f as [|f]; [lia|].
    rewrite (lex_all_step _ _ _ _ H H0). cbn [length Nat.sub app]. f_equal. apply IHLexes. lia.
Qed.

Lemma Lexes_app : forall a t1 b t2 c, Lexes a t1 b -> Lexes b t2 c -> Lexes a (t1 ++ t2) c.
Proof.
  intros a t1 b t2 c H. revert t2 c. induction H; intros t2 c0 K; cbn [app].
  - exact K.
  - apply Lexes_ws; auto.
  - eapply Lexes_tok; eauto.
Qed.

Lemma Lexes_one : forall s rest t, lex1 (s ++ rest) = (t, rest) -> is_tok t = true -> s <> [] ->
  Lexes (s ++ rest) [t] rest.
Proof.
  intros s rest t H K N. eapply Lexes_tok; [exact H | exact K | | apply Lexes_nil].
  rewrite app_length. destruct s; [contradiction | cbn [length]; lia].
Qed.

Lemma good_rest_sp : forall r, good_rest (32 :: r).  Proof. cbn; auto. Qed.
Lemma good_rest_lf : forall r, good_rest (10 :: r).  Proof. cbn; auto. Qed.
Lemma good_rest_rb : forall r, good_rest (93 :: r).  Proof. cbn; auto. Qed.

Lemma dec_z_nonempty : forall z, dec_z z <> [].
Proof. intros [|p|p]; unfold dec_z; try apply dec_nonempty. discriminate. Qed.
Lemma ser_real_nonempty : forall neg m, ser_real neg m <> [].
Proof.
  intros neg m E. unfold ser_real in E. destruct neg; [discriminate|]. cbn [app] in E.
  apply app_eq_nil in E. destruct E as [E _]. exact (dec_nonempty _ E).
Qed.
Lemma app_longer : forall (s x : bytes), s <> [] -> (length x < length (s ++ x))%nat.
Proof. intros s x N. rewrite app_length. destruct s; [contradiction | cbn [length]; lia]. Qed.

Lemma cons_app_longer : forall c (n x : bytes), (length x < length (c :: n ++ x))%nat.
Proof. intros. cbn [length]. rewrite app_length. lia. Qed.

Lemma ser_elems_one : forall f a, ser_elems f [a] = f a.
Proof. reflexivity. Qed.
Lemma ser_elems_cons2 : forall f a b r, ser_elems f (a :: b :: r) = f a ++ 32 :: ser_elems f (b :: r).
Proof. reflexivity. Qed.

Section Gen.
Variable nm : bytes -> bytes.
Variable nok : bytes -> bool.
Hypothesis Hnm : forall n rest, nok n = true -> good_rest rest -> lex1 (47 :: nm n ++ rest) = (TName n, rest).
Local Notation wfg := (wf_gen nok).

(** the statement proved by induction over the tree *)
Definition LexP (v : obj) : Prop :=
  wfg v = true -> forall rest, good_rest rest -> Lexes (ser nm v ++ rest) (toks v) rest.

Lemma lexes_ref : forall n g, LexP (ORef n g).
Proof.
  intros n g W rest G. cbn [wf_gen] in W. apply andb_true_iff in W. destruct W as [Wn Wg].
  cbn [ser toks]. rewrite <- app_assoc. cbn [app]. rewrite <- app_assoc. cbn [app].
  eapply Lexes_tok with (r := 32 :: dec g ++ 32 :: 82 :: rest).
  { rewrite lex1_pos_body. apply (number_body_int false n); [repeat split; discriminate|].
    unfold int_ok, signed, i64_min, i64_max. lia. }
  { reflexivity. }
  { apply app_longer, dec_nonempty. }
  apply Lexes_ws; [reflexivity|].
  eapply Lexes_tok with (r := 32 :: 82 :: rest).
  { rewrite lex1_pos_body. apply (number_body_int false g); [repeat split; discriminate|].
    unfold int_ok, signed, i64_min, i64_max. lia. }
  { reflexivity. }
  { apply app_longer, dec_nonempty. }
  apply Lexes_ws; [reflexivity|].
  eapply Lexes_tok with (r := rest); [reflexivity | reflexivity | cbn [length]; lia | apply Lexes_nil].
Qed.

Lemma lexes_arr_end : forall rest, Lexes (93 :: rest) [TArrE] rest.
Proof. intro. eapply Lexes_tok; [reflexivity | reflexivity | cbn [length]; lia | apply Lexes_nil]. Qed.

Lemma lexes_elems : forall l, Forall LexP l -> forallb wfg l = true -> forall rest,
  Lexes (ser_elems (ser nm) l ++ 93 :: rest) (flat_map toks l ++ [TArrE]) rest.
Proof.
  induction 1 as [|a r Pa Pr IH]; intros W rest.
  - apply lexes_arr_end.
  - cbn [forallb] in W. apply andb_true_iff in W. destruct W as [Wa Wr].
    cbn [flat_map]. rewrite <- app_assoc.
    destruct r as [|b r].
    + rewrite ser_elems_one. cbn [flat_map app].
      eapply Lexes_app; [apply (Pa Wa), good_rest_rb | apply lexes_arr_end].
    + rewrite ser_elems_cons2. rewrite <- app_assoc. cbn [app].
      eapply Lexes_app; [apply (Pa Wa), good_rest_sp|].
      apply Lexes_ws; [reflexivity|]. apply IH. exact Wr.
Qed.

Lemma lexes_arr : forall l, Forall LexP l -> LexP (OArr l).
Proof.
  intros l H W rest G. cbn [wf_gen] in W. apply andb_true_iff in W. destruct W as [W _].
  cbn [ser toks]. rewrite <- app_comm_cons, <- app_assoc. cbn [app].
  eapply Lexes_tok with (r := ser_elems (ser nm) l ++ 93 :: rest);
    [reflexivity | reflexivity | cbn [length]; lia|].
  apply lexes_elems; assumption.
Qed.

Lemma ser_entries_cons : forall kv l, ser_entries nm (kv :: l) = ser_entry nm kv ++ ser_entries nm l.
Proof. reflexivity. Qed.

Lemma good_rest_entries : forall (L : list (bytes * bytes)) rest,
  good_rest (ser_entries nm L ++ 10 :: rest).
Proof. intros [|kv L] rest; cbn; auto. Qed.

Lemma lexes_entries : forall L, Forall (fun kv => LexP (snd kv)) L ->
  forallb (fun kv => nok (fst kv) && wfg (snd kv)) L = true -> forall rest,
  Lexes (ser_entries nm (map (on_snd (ser nm)) L) ++ 10 :: 62 :: 62 :: rest)
        (flat_map entry_toks L ++ [TDictE]) rest.
Proof.
  induction 1 as [|kv L Pkv PL IH]; intros W rest.
  - cbn [map ser_entries flat_map app]. apply Lexes_ws; [reflexivity|].
    eapply Lexes_tok; [reflexivity | reflexivity | cbn [length]; lia | apply Lexes_nil].
  - cbn [forallb] in W. apply andb_true_iff in W. destruct W as [Wkv WL].
    apply andb_true_iff in Wkv. destruct Wkv as [Wk Wv].
    cbn [map flat_map]. rewrite ser_entries_cons. unfold ser_entry, on_snd at 1 2. cbn [fst snd].
    unfold entry_toks at 1.
    rewrite <- !app_assoc. cbn [app]. rewrite <- !app_assoc. cbn [app].
    apply Lexes_ws; [reflexivity|].
    eapply Lexes_tok.
    { apply Hnm; [exact Wk | apply good_rest_sp]. }
    { reflexivity. }
    { apply cons_app_longer. }
    apply Lexes_ws; [reflexivity|].
    eapply Lexes_app; [apply (Pkv Wv), good_rest_entries|].
    apply IH. exact WL.
Qed.

Lemma forallb_sort_kv : forall {A} (q : bytes * A -> bool) l,
  forallb q l = true -> forallb q (sort_kv l) = true.
Proof.
  intros A q l H. rewrite forallb_forall in *. intros x Hx. apply H. apply sort_kv_in. exact Hx.
Qed.

Lemma lexes_dict : forall l, Forall (fun kv => LexP (snd kv)) l -> LexP (ODict l).
Proof.
  intros l H W rest G. cbn [wf_gen] in W.
  rewrite ser_dict, toks_dict. rewrite <- !app_comm_cons. rewrite <- app_assoc. cbn [app].
  eapply Lexes_tok with (r := ser_entries nm (map (on_snd (ser nm)) (sort_kv l)) ++ 10 :: 62 :: 62 :: rest);
    [reflexivity | reflexivity | cbn [length]; lia|].
  apply lexes_entries; [apply sort_kv_Forall; exact H | apply forallb_sort_kv; exact W].
Qed.

Lemma lexes_ser : forall v, LexP v.
Proof.
  induction v using obj_ind'; try (apply lexes_arr; assumption); try (apply lexes_dict; assumption);
    try apply lexes_ref; intros W rest G; cbn [wf_gen] in W.
  - apply (Lexes_one (ser nm ONull)); [apply lex_ser_null; exact G | reflexivity | discriminate].
  - apply (Lexes_one (ser nm (OBool b))); [apply lex_ser_bool; exact G | reflexivity | destruct b; discriminate].
  - apply (Lexes_one (ser nm (OInt z))); [apply lex_ser_int; assumption | reflexivity | apply dec_z_nonempty].
  - apply (Lexes_one (ser nm (OReal n m))); [apply lex_ser_real; assumption | | apply ser_real_nonempty].
    unfold real_tok. destruct (m mod 1000000 =? 0); reflexivity.
  - apply (Lexes_one (ser nm (OStr s))); [apply lex_ser_str | reflexivity | discriminate].
  - apply (Lexes_one (ser nm (OHex s))); [apply lex_ser_hex; exact W | reflexivity | discriminate].
  - apply (Lexes_one (ser nm (OName n))); [cbn [ser]; rewrite <- app_comm_cons; apply Hnm; assumption | reflexivity | discriminate].
Qed.

(** continuation form on [lex_all] itself *)
Lemma lex_all_ser_gen : forall v rest f, wfg v = true -> good_rest rest -> (length (toks v) <= f)%nat ->
  lex_all f (ser nm v ++ rest) = toks v ++ lex_all (f - length (toks v)) rest.
Proof. intros v rest f W G Hf. apply Lexes_lex_all; [apply lexes_ser; assumption | exact Hf]. Qed.

Lemma toks_le_ser : forall v, wfg v = true -> (length (toks v) <= length (ser nm v))%nat.
Proof.
  intros v W. pose proof (Lexes_len _ _ _ (lexes_ser v W [] I)) as K.
  rewrite app_nil_r in K. cbn [length] in K. lia.
Qed.

Lemma lex_all_ser_top : forall v, wfg v = true ->
  lex_all (S (length (ser nm v))) (ser nm v) = toks v ++ [TEof].
Proof.
  intros v W. pose proof (toks_le_ser v W) as L.
  pose proof (lex_all_ser_gen v [] (S (length (ser nm v))) W I) as K. rewrite app_nil_r in K.
  rewrite K by lia. f_equal.
  destruct (S (length (ser nm v)) - length (toks v))%nat eqn:E; [lia | reflexivity].
Qed.

(** * Layer 2: what the parser makes of [toks v] followed by [rest] *)

(** tokens after which nothing is skipped or refused when they are peeked *)
Definition quiet (t : token) : bool :=
  match t with TErr | TComment | TKw _ => false | _ => true end.
Definition hdq (ts : list token) : bool :=
  match ts with [] => false | t :: _ => quiet t end.
(** the look-ahead (one token after a dictionary, up to two after an integer) puts back exactly
    what it took: the peeked tokens exist and are neither errors, comments nor keywords *)
Definition rest_ok (ts : list token) : bool :=
  match ts with
  | [] => false
  | TInt _ :: r => hdq r
  | t :: _ => quiet t
  end.
(** the value is not an object number followed by "gen R" *)
Definition ahead_ok (c : cls) (ts : list token) : bool :=
  match c with
  | CInt i => match ts with
              | TInt g :: TName n :: _ => negb (in_objnum i && in_gen g && bytes_eqb n name_R)
              | _ => true
              end
  | _ => true
  end.

Definition parse_toks (fuel : nat) (ts : list token) : option (pobj * list token) :=
  match ts with [] => None | t :: r => parse_tok fuel t r end.

(** (3) the integer look-ahead pushes back what it peeked *)
Lemma parse_int_back : forall i rest, rest_ok rest = true -> ahead_ok (CInt i) rest = true ->
  parse_int i rest = Some (PInt i, rest).
Proof.
  intros i rest R A. unfold parse_int. destruct (in_objnum i) eqn:E; [|reflexivity]. cbn [negb].
  destruct rest as [|t r]; [discriminate|]. cbn [next].
  destruct t; cbn in R; try discriminate; try reflexivity.
  destruct (in_gen z) eqn:G; [|reflexivity].
  destruct r as [|t2 r2]; [discriminate|]. cbn [next].
  destruct t2; cbn in R; try discriminate; try reflexivity.
  cbn [ahead_ok] in A. rewrite E, G in A. cbn [andb] in A. apply negb_true_iff in A. rewrite A. reflexivity.
Qed.

Lemma after_dict_back : forall f l rest, rest_ok rest = true ->
  after_dict (S f) l rest = Some (PDict l, rest).
Proof.
  intros f l rest R. destruct rest as [|t r]; [discriminate|]. cbn [after_dict next].
  destruct t; cbn in R; try discriminate; reflexivity.
Qed.

(** first tokens *)
Definition vstart (t : token) : bool :=
  match t with
  | TNull | TBool _ | TInt _ | TReal _ _ | TStr _ | TName _ | TArrS | TDictS => true
  | _ => false
  end.
Lemma toks_hd : forall v, exists t ts, toks v = t :: ts /\ vstart t = true.
Proof.
  destruct v; cbn [toks]; try (eexists; eexists; split; [reflexivity | reflexivity]).
  unfold real_tok. destruct (m mod 1000000 =? 0); eexists; eexists; split; reflexivity.
Qed.

Lemma hdq_toks : forall v Y, hdq (toks v ++ Y) = true.
Proof.
  intros v Y. destruct (toks_hd v) as (t & ts & E & S). rewrite E. cbn [app hdq].
  destruct t; try discriminate; reflexivity.
Qed.
Lemma hdq_flat : forall r rest, hdq (flat_map toks r ++ TArrE :: rest) = true.
Proof.
  intros [|b r] rest; [reflexivity|]. cbn [flat_map]. rewrite <- app_assoc. apply hdq_toks.
Qed.
Lemma rest_ok_toks : forall v Y, hdq Y = true -> rest_ok (toks v ++ Y) = true.
Proof.
  intros v Y H. destruct v; cbn [toks app rest_ok quiet hdq]; try reflexivity; try exact H.
  unfold real_tok. destruct (m mod 1000000 =? 0); [exact H | reflexivity].
Qed.
Lemma rest_ok_flat : forall r rest, rest_ok (flat_map toks r ++ TArrE :: rest) = true.
Proof.
  intros [|b r] rest; [reflexivity|]. cbn [flat_map]. rewrite <- app_assoc.
  apply rest_ok_toks, hdq_flat.
Qed.

(** [arr_ok] is exactly what the look-ahead needs inside an array *)
Lemma ahead_flat : forall a r rest, arr_ok (a :: r) = true ->
  ahead_ok (tokcls a) (flat_map toks r ++ TArrE :: rest) = true.
Proof.
  intros a r rest H. destruct (tokcls a) as [i| |] eqn:Ea; [|reflexivity..].
  destruct r as [|b r]; [reflexivity|]. destruct r as [|c r].
  - cbn [flat_map app]. rewrite app_nil_r.
    destruct b; cbn [toks app ahead_ok]; try reflexivity.
    unfold real_tok. destruct (m mod 1000000 =? 0); reflexivity.
  - cbn [arr_ok] in H. apply andb_true_iff in H. destruct H as [H _].
    unfold collide in H. rewrite Ea in H.
    cbn [flat_map]. rewrite <- !app_assoc.
    assert (K : forall g, tokcls b = CInt g ->
                ahead_ok (CInt i) (TInt g :: toks c ++ flat_map toks r ++ TArrE :: rest) = true).
    { intros g Eb. rewrite Eb in H.
      destruct c; cbn [toks app ahead_ok tokcls] in *; try reflexivity.
      - unfold real_tok. destruct (m mod 1000000 =? 0); reflexivity.
      - destruct (bytes_eqb n name_R); [rewrite andb_true_r; exact H | rewrite andb_false_r; reflexivity]. }
    destruct b; cbn [toks app ahead_ok]; try reflexivity.
    + apply K. reflexivity.
    + unfold real_tok. cbn [tokcls] in K. destruct (m mod 1000000 =? 0); [apply K; reflexivity | reflexivity].
Qed.

Definition ParseP (v : obj) : Prop :=
  wfg v = true -> forall rest fuel, rest_ok rest = true -> ahead_ok (tokcls v) rest = true ->
  (2 * length (toks v) <= fuel)%nat ->
  parse_toks fuel (toks v ++ rest) = Some (norm v, rest).

Lemma parse_elems : forall l, Forall ParseP l -> forallb wfg l = true -> arr_ok l = true ->
  forall rest fuel, (2 * length (flat_map toks l) + 1 <= fuel)%nat ->
  parse_arr fuel (flat_map toks l ++ TArrE :: rest) = Some (map norm l, rest).
Proof.
  induction 1 as [|a r Pa Pr IH]; intros W A rest fuel Hf.
  - destruct fuel as [|f]; [cbn in Hf; lia|]. reflexivity.
  - cbn [forallb] in W. apply andb_true_iff in W. destruct W as [Wa Wr].
    assert (Ar : arr_ok r = true).
    { cbn [arr_ok] in A. apply andb_true_iff in A. tauto. }
    destruct fuel as [|f]; [lia|].
    cbn [flat_map] in *. rewrite app_length in Hf. rewrite <- app_assoc.
    set (X := flat_map toks r ++ TArrE :: rest).
    destruct (toks_hd a) as (t & ts & E & S).
    assert (L : (1 <= length (toks a))%nat) by (rewrite E; cbn [length]; lia).
    pose proof (Pa Wa X f (rest_ok_flat r rest) (ahead_flat a r rest A) ltac:(lia)) as K.
    pose proof (IH Wr Ar rest f ltac:(lia)) as K2. fold X in K2.
    rewrite E in K |- *. cbn [app parse_toks] in K. cbn [app parse_arr next map].
    destruct t; try discriminate; rewrite K, K2; reflexivity.
Qed.

Lemma rest_ok_entries : forall L rest, rest_ok (flat_map entry_toks L ++ TDictE :: rest) = true.
Proof. intros [|kv L] rest; reflexivity. Qed.
Lemma ahead_entries : forall c L rest, ahead_ok c (flat_map entry_toks L ++ TDictE :: rest) = true.
Proof. intros [i| |] [|kv L] rest; reflexivity. Qed.

Lemma parse_entries : forall L, Forall (fun kv => ParseP (snd kv)) L ->
  forallb (fun kv => wfg (snd kv)) L = true ->
  forall rest fuel, (2 * length (flat_map entry_toks L) + 1 <= fuel)%nat ->
  parse_dict fuel (flat_map entry_toks L ++ TDictE :: rest) = Some (map (on_snd norm) L, rest).
Proof.
  induction 1 as [|kv L Pkv PL IH]; intros W rest fuel Hf.
  - destruct fuel as [|f]; [cbn in Hf; lia|]. reflexivity.
  - cbn [forallb] in W. apply andb_true_iff in W. destruct W as [Wv WL].
    destruct fuel as [|f]; [lia|].
    cbn [flat_map] in *. unfold entry_toks at 1 in Hf. unfold entry_toks at 1.
    rewrite app_length in Hf. cbn [length] in Hf. rewrite <- app_assoc. cbn [app].
    set (X := flat_map entry_toks L ++ TDictE :: rest).
    destruct (toks_hd (snd kv)) as (t & ts & E & S).
    assert (Lt : (1 <= length (toks (snd kv)))%nat) by (rewrite E; cbn [length]; lia).
    pose proof (Pkv Wv X f (rest_ok_entries L rest) (ahead_entries _ L rest) ltac:(lia)) as K.
    pose proof (IH WL rest f ltac:(lia)) as K2. fold X in K2.
    rewrite E in K |- *. cbn [app parse_toks] in K. cbn [app parse_dict next map].
    destruct t; try discriminate; rewrite K, K2; reflexivity.
Qed.

Lemma forallb_impl : forall {A} (p q : A -> bool) l, (forall x, p x = true -> q x = true) ->
  forallb p l = true -> forallb q l = true.
Proof.
  intros A p q l H K. rewrite forallb_forall in *. intros x Hx. apply H, K, Hx.
Qed.

Lemma parse_toks_ser_gen : forall v, ParseP v.
Proof.
  induction v using obj_ind'; intros W rest fuel R A Hf.
  - destruct fuel; [cbn in Hf; lia | reflexivity].
  - destruct fuel; [cbn in Hf; lia | reflexivity].
  - destruct fuel; [cbn in Hf; lia|]. cbn [toks app parse_toks parse_tok norm].
    apply parse_int_back; assumption.
  - destruct fuel; [cbn in Hf; lia|]. cbn [toks app parse_toks norm tokcls] in *. unfold real_tok.
    destruct (m mod 1000000 =? 0); [|reflexivity]. cbn [parse_tok]. apply parse_int_back; assumption.
  - destruct fuel; [cbn in Hf; lia | reflexivity].
  - destruct fuel; [cbn in Hf; lia | reflexivity].
  - destruct fuel; [cbn in Hf; lia | reflexivity].
  - (* arrays *)
    cbn [wf_gen] in W. apply andb_true_iff in W. destruct W as [W Ao].
    cbn [toks length] in Hf. rewrite app_length in Hf. cbn [length] in Hf.
    destruct fuel as [|f]; [lia|].
    cbn [toks norm]. rewrite <- app_comm_cons, <- app_assoc. cbn [app parse_toks parse_tok].
    rewrite (parse_elems l H W Ao rest f) by lia. reflexivity.
  - (* dictionaries *)
    cbn [wf_gen] in W. rewrite toks_dict in *. rewrite norm_dict.
    cbn [length] in Hf. rewrite app_length in Hf. cbn [length] in Hf.
    destruct fuel as [|f]; [lia|].
    rewrite <- app_comm_cons, <- app_assoc. cbn [app parse_toks parse_tok].
    rewrite (parse_entries (sort_kv l)).
    + destruct f as [|f]; [lia|]. apply after_dict_back. exact R.
    + apply sort_kv_Forall. exact H.
    + apply forallb_sort_kv. revert W. apply forallb_impl. intros x Hx. apply andb_true_iff in Hx. tauto.
    + lia.
  - (* references *)
    cbn [wf_gen] in W. apply andb_true_iff in W. destruct W as [Wn Wg].
    destruct fuel; [cbn in Hf; lia|]. cbn [toks app parse_toks parse_tok norm]. unfold parse_int.
    assert (E1 : in_objnum (Z.of_N n) = true) by (unfold in_objnum; lia).
    assert (E2 : in_gen (Z.of_N g) = true) by (unfold in_gen; lia).
    rewrite E1. cbn [negb next]. rewrite E2. cbn [next].
    change (bytes_eqb name_R name_R) with true. cbv iota. rewrite !N2Z.id. reflexivity.
Qed.

(** * The nested theorem *)
Theorem ser_parse_roundtrip_gen : forall v, wfg v = true -> parse (ser nm v) = Some (norm v).
Proof.
  intros v W. unfold parse. rewrite (lex_all_ser_top v W). cbv zeta.
  destruct (toks_hd v) as (t & ts & E & S).
  pose proof (parse_toks_ser_gen v W [TEof] (4 * length (toks v ++ [TEof]) + 4)%nat eq_refl) as K.
  assert (A : ahead_ok (tokcls v) [TEof] = true) by (destruct (tokcls v); reflexivity).
  specialize (K A). rewrite app_length in K at 1.
  specialize (K ltac:(cbn [length]; lia)). rewrite app_length in K. rewrite <- app_length in K.
  rewrite E in K |- *. cbn [app parse_toks] in K. cbn [app next].
  destruct t; try discriminate; rewrite K; reflexivity.
Qed.

End Gen.

(** * the two instances *)
Definition lex_all_ser := lex_all_ser_gen esc_iso bytes_ok lex_esc_iso_name.
Definition parse_toks_ser := parse_toks_ser_gen bytes_ok.
Theorem ser_parse_roundtrip : forall v, wf v = true -> parse (ser esc_iso v) = Some (norm v).
Proof. exact (ser_parse_roundtrip_gen esc_iso bytes_ok lex_esc_iso_name). Qed.
(** record about the writer before the repair: names raw, hence regular names only *)
Theorem ser_parse_roundtrip_pinned : forall v, wf_pinned v = true -> parse (ser raw_name v) = Some (norm v).
Proof. exact (ser_parse_roundtrip_gen raw_name regular_name lex1_name). Qed.

(** * String-level reading of the result (reader after fix_name_utf8: decoded name bytes that are
    valid UTF-8 ARE the String; [name_string], [strview] in Model.v) *)
Lemma name_string_utf8 : forall n, Tok.utf8_valid n = true -> name_string n = n.
Proof. intros n H. unfold name_string. rewrite H. reflexivity. Qed.
Lemma name_string_invalid : forall n, Tok.utf8_valid n = false -> name_string n = l1_utf8 n.
Proof. intros n H. unfold name_string. rewrite H. reflexivity. Qed.

(** [Tok.utf8_valid] only accepts bytes (every branch bounds the bytes it consumes by 244) *)
Lemma utf8_valid_bytes_ok : forall n, Tok.utf8_valid n = true -> bytes_ok n = true.
Proof.
  intro n. remember (length n) as k eqn:K. assert (L : (length n <= k)%nat) by lia. clear K.
  revert n L. induction k as [|k IH]; intros n L H.
  - destruct n; [reflexivity | cbn in L; lia].
  - destruct n as [|c r]; [reflexivity|].
    cbn [Tok.utf8_valid] in H. cbn [length] in L.
    change (bytes_ok (c :: r)) with (byte_ok c && bytes_ok r).
    destruct (c <? 128) eqn:E1.
    { apply andb_true_iff; split; [unfold byte_ok; lia | apply IH; [lia | exact H]]. }
    destruct (Tok.btw 194 c 223) eqn:E2.
    { destruct r as [|c1 r1]; [discriminate|]. apply andb_true_iff in H. destruct H as [H1 H].
      change (bytes_ok (c1 :: r1)) with (byte_ok c1 && bytes_ok r1). cbn [length] in L.
      rewrite (IH r1) by (try lia; exact H). unfold Tok.btw, Tok.cont, byte_ok in *. lia. }
    destruct (Tok.btw 224 c 239) eqn:E3.
    { destruct r as [|c1 [|c2 r2]]; try discriminate.
      apply andb_true_iff in H. destruct H as [H H2]. apply andb_true_iff in H. destruct H as [H0 H1].
      change (bytes_ok (c1 :: c2 :: r2)) with (byte_ok c1 && (byte_ok c2 && bytes_ok r2)). cbn [length] in L.
      rewrite (IH r2) by (try lia; exact H2).
      destruct (c =? 224); [|destruct (c =? 237)]; unfold Tok.btw, Tok.cont, byte_ok in *; lia. }
    destruct (Tok.btw 240 c 244) eqn:E4; [|discriminate].
    destruct r as [|c1 [|c2 [|c3 r3]]]; try discriminate.
    apply andb_true_iff in H. destruct H as [H H3]. apply andb_true_iff in H. destruct H as [H Hc3].
    apply andb_true_iff in H. destruct H as [H0 H1].
    change (bytes_ok (c1 :: c2 :: c3 :: r3)) with (byte_ok c1 && (byte_ok c2 && (byte_ok c3 && bytes_ok r3))). cbn [length] in L.
    rewrite (IH r3) by (try lia; exact H3).
    destruct (c =? 240); [|destruct (c =? 244)]; unfold Tok.btw, Tok.cont, byte_ok in *; lia.
Qed.

Lemma utf8_valid_ascii : forall n, ascii_name n = true -> Tok.utf8_valid n = true.
Proof.
  induction n as [|c n IH]; intro H; [reflexivity|].
  cbn [ascii_name forallb] in H. apply andb_true_iff in H. destruct H as [Hc Hn].
  cbn [Tok.utf8_valid]. rewrite Hc. apply IH. exact Hn.
Qed.
Lemma l1_utf8_ascii : forall n, ascii_name n = true -> l1_utf8 n = n.
Proof.
  induction n as [|c n IH]; intro H; [reflexivity|].
  cbn [ascii_name forallb] in H. apply andb_true_iff in H. destruct H as [Hc Hn].
  unfold l1_utf8. cbn [flat_map]. rewrite Hc. cbn [app]. f_equal. apply IH. exact Hn.
Qed.
Lemma name_string_ascii : forall n, ascii_name n = true -> name_string n = n.
Proof. intros n A. apply name_string_utf8, utf8_valid_ascii, A. Qed.

(** the parser looks at a name String only to compare it with "R": the String is "R" exactly when the
    decoded bytes are (so [parse_int]'s test on the decoded bytes is the code's test on the String) *)
Lemma name_string_R : forall n, name_string n = name_R <-> n = name_R.
Proof.
  intro n. split; intro H.
  - unfold name_string in H. destruct (Tok.utf8_valid n) eqn:E; [exact H|].
    exfalso. unfold name_R in H. destruct n as [|c [|c2 r]].
    + discriminate.
    + unfold l1_utf8 in H. cbn [flat_map app] in H. destruct (c <? 128) eqn:C; [|discriminate].
      cbn [Tok.utf8_valid] in E. rewrite C in E. discriminate.
    + unfold l1_utf8 in H. cbn [flat_map] in H.
      destruct (c <? 128); destruct (c2 <? 128); cbn [app] in H; discriminate.
  - subst n. reflexivity.
Qed.

Lemma strview_norm_utf8 : forall v, utf8_names v = true -> strview (norm v) = norm v.
Proof.
  induction v using obj_ind'; intro A; try reflexivity.
  - cbn [norm]. destruct (m mod 1000000 =? 0); reflexivity.
  - cbn [norm strview]. rewrite name_string_utf8 by exact A. reflexivity.
  - cbn [norm strview]. f_equal. cbn [utf8_names] in A.
    induction H as [|a r Pa Pr IH]; [reflexivity|].
    cbn [forallb] in A. apply andb_true_iff in A. destruct A as [Aa Ar].
    cbn [map]. rewrite (Pa Aa), (IH Ar). reflexivity.
  - rewrite norm_dict. cbn [strview]. f_equal. cbn [utf8_names] in A.
    assert (As : forallb (fun kv => Tok.utf8_valid (fst kv) && utf8_names (snd kv)) (sort_kv l) = true).
    { apply forallb_sort_kv. exact A. }
    pose proof (sort_kv_Forall _ _ H) as Hs.
    induction Hs as [|kv r Pk Pr IH]; [reflexivity|].
    cbn [forallb] in As. apply andb_true_iff in As. destruct As as [Ak Ar].
    apply andb_true_iff in Ak. destruct Ak as [Ak Av].
    cbn [map]. rewrite (IH Ar). destruct kv as [k x]. unfold on_snd at 1. cbn [fst snd] in *.
    rewrite (name_string_utf8 k Ak), (Pk Av). reflexivity.
Qed.
(** ASCII names are valid UTF-8 *)
Lemma ascii_names_utf8 : forall v, ascii_names v = true -> utf8_names v = true.
Proof.
  induction v using obj_ind'; intro A; try reflexivity.
  - cbn [ascii_names utf8_names] in *. apply utf8_valid_ascii, A.
  - cbn [ascii_names utf8_names] in *.
    induction H as [|a r Pa Pr IH]; [reflexivity|].
    cbn [forallb] in *. apply andb_true_iff in A. destruct A as [Aa Ar].
    rewrite (Pa Aa), (IH Ar). reflexivity.
  - cbn [ascii_names utf8_names] in *.
    induction H as [|kv r Pk Pr IH]; [reflexivity|].
    cbn [forallb] in *. apply andb_true_iff in A. destruct A as [Ak Ar].
    apply andb_true_iff in Ak. destruct Ak as [Ak Av].
    rewrite (utf8_valid_ascii _ Ak), (Pk Av), (IH Ar). reflexivity.
Qed.

(** THE String-level round trip: every tree whose names are Rust Strings (valid UTF-8 — every
    Rust String is) reads back with the same Strings.  Before fix_name_utf8 this held for ASCII
    names only (finding C09-name-nonascii, now fixed; record: Proofs.name_nonascii_refuted_pinned). *)
Theorem ser_parse_roundtrip_strings : forall v, wf v = true -> utf8_names v = true ->
  option_map strview (parse (ser esc_iso v)) = Some (norm v).
Proof. intros v W A. rewrite (ser_parse_roundtrip v W). cbn [option_map]. rewrite (strview_norm_utf8 v A). reflexivity. Qed.
Corollary ser_parse_roundtrip_strings_ascii : forall v, wf v = true -> ascii_names v = true ->
  option_map strview (parse (ser esc_iso v)) = Some (norm v).
Proof. intros v W A. apply ser_parse_roundtrip_strings; [exact W | apply ascii_names_utf8, A]. Qed.
(** and in the form the checker of channel [ser] computes it ([parse_strings] = canon after strview) *)
Theorem ser_parse_strings_canon : forall v, wf v = true -> utf8_names v = true ->
  parse_strings (ser esc_iso v) = Some (canon (norm v)).
Proof.
  intros v W A. unfold parse_strings. rewrite (ser_parse_roundtrip v W). cbn [option_map].
  rewrite (strview_norm_utf8 v A). reflexivity.
Qed.

(** the incremental writer's name escaper, String level: every Rust String used as a name reads
    back as the same String (former finding C09-incr-nonascii-name, repaired by the reader fix) *)
Theorem incr_name_roundtrip_strings : forall n, Tok.utf8_valid n = true ->
  option_map strview (parse (ser_incr (OName n))) = Some (PName n).
Proof.
  intros n U. change (ser_incr (OName n)) with (ser esc_name (OName n)).
  rewrite (ser_parse_roundtrip_gen esc_name bytes_ok lex_esc_name (OName n)) by (cbn [wf_gen]; apply utf8_valid_bytes_ok, U).
  cbn [option_map norm strview]. rewrite (name_string_utf8 n U). reflexivity.
Qed.

(** satisfiability of the hypotheses of the continuation lemmas on a nested value followed by
    a non-trivial continuation *)
Example lex_all_ser_hyps : wf sample = true /\ good_rest (bytes_of_string " 12 0 R]") .
Proof. split; [vm_compute; reflexivity | cbn; auto]. Qed.
Example parse_toks_ser_hyps :
  wf sample = true /\ rest_ok [TInt 12; TInt 0; TName name_R; TArrE; TEof] = true
  /\ ahead_ok (tokcls sample) [TInt 12; TInt 0; TName name_R; TArrE; TEof] = true
  /\ ahead_ok (tokcls (OInt 10000000)) [TInt 12; TName name_R; TArrE; TEof] = true
  /\ ahead_ok (tokcls (OInt 3)) [TInt 70000; TName name_R; TArrE; TEof] = true.
Proof. vm_compute. repeat split. Qed.

(** * Link to the correspondence verdict: on a [wf] value the checker of channel [ser] can never
    report "model agrees with the implementation, property fails" (code 2): whenever the
    implementation's bytes and parse result equal the model's, the property bit is clear. *)
(* FULL STATEMENT (not proved here; needs opobj_eqb-soundness):
     forall v bs p, wf v = true -> utf8_names v = true -> ser_code (v, bs, p) <> 2.
   Proved: the facts it rests on, [ser_parse_roundtrip] (bytes), [ser_parse_roundtrip_strings] and
   [ser_parse_strings_canon] (String view, every valid-UTF-8 name), and the first half of the
   verdict link: a byte-identical implementation output parses, in the model, to [norm v]. *)
Theorem ser_code_model_parse_partial : forall v bs, wf v = true -> bytes_eqb (ser esc_iso v) bs = true ->
  option_map canon (parse bs) = Some (canon (norm v)).
Proof. intros v bs W E. apply bytes_eqb_eq in E. subst bs. rewrite (ser_parse_roundtrip v W). reflexivity. Qed.
(** the same at the String view the checker now compares ([parse_strings]) *)
Theorem ser_code_model_strings_partial : forall v bs, wf v = true -> utf8_names v = true ->
  bytes_eqb (ser esc_iso v) bs = true -> parse_strings bs = Some (canon (norm v)).
Proof. intros v bs W A E. apply bytes_eqb_eq in E. subst bs. apply ser_parse_strings_canon; assumption. Qed.
