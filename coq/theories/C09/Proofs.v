(** C09 — structural part: the token sequence of a serialized value, and what the parser
    makes of it.  [ser esc_iso] is the (repaired) main writer, [ser raw_name] the writer before the repair;
    [wf] = [wf_gen bytes_ok], [wf_pinned] = [wf_gen regular_name]. *)
From OxVerif Require Import Base.Util C09.Model C09.Tokens C09.FracSweep.
Require Import Lia ZifyBool.

(** * induction principle for the nested type *)
Section ObjInd.
  Variable P : obj -> Prop.
  Hypothesis Hnull : P ONull.
  Hypothesis Hbool : forall b, P (OBool b).
  Hypothesis Hint : forall z, P (OInt z).
  Hypothesis Hreal : forall n m, P (OReal n m).
  Hypothesis Hstr : forall s, P (OStr s).
  Hypothesis Hhex : forall s, P (OHex s).
  Hypothesis Hname : forall n, P (OName n).
  Hypothesis Harr : forall l, Forall P l -> P (OArr l).
  Hypothesis Hdict : forall l, Forall (fun kv => P (snd kv)) l -> P (ODict l).
  Hypothesis Href : forall n g, P (ORef n g).
  Fixpoint obj_ind' (v : obj) : P v :=
    match v with
    | ONull => Hnull | OBool b => Hbool b | OInt z => Hint z | OReal n m => Hreal n m
    | OStr s => Hstr s | OHex s => Hhex s | OName n => Hname n
    | OArr l => Harr l ((fix go (l : list obj) : Forall P l :=
                           match l with [] => Forall_nil _ | x :: r => Forall_cons _ (obj_ind' x) (go r) end) l)
    | ODict l => Hdict l ((fix go (l : list (bytes * obj)) : Forall (fun kv => P (snd kv)) l :=
                           match l with [] => Forall_nil _ | x :: r => Forall_cons _ (obj_ind' (snd x)) (go r) end) l)
    | ORef n g => Href n g
    end.
End ObjInd.

(** * sorting by key commutes with any map on the values *)
Definition on_snd {A B} (f : A -> B) (kv : bytes * A) : bytes * B := (fst kv, f (snd kv)).

Lemma map_pair_on_snd : forall {A B} (f : A -> B) (l : list (bytes * A)),
  map (fun '(k, x) => (k, f x)) l = map (on_snd f) l.
Proof. intros. apply map_ext. intros [k x]. reflexivity. Qed.

Lemma ins_kv_map : forall {A B} (f : A -> B) kv (l : list (bytes * A)),
  ins_kv (on_snd f kv) (map (on_snd f) l) = map (on_snd f) (ins_kv kv l).
Proof.
  induction l as [|kv' l IH]; [reflexivity|].
  cbn [map ins_kv]. unfold on_snd at 1 2. cbn [fst].
  destruct (bytes_leb (fst kv) (fst kv')); [reflexivity|].
  cbn [map]. f_equal. apply IH.
Qed.
Lemma sort_kv_map : forall {A B} (f : A -> B) (l : list (bytes * A)),
  sort_kv (map (on_snd f) l) = map (on_snd f) (sort_kv l).
Proof.
  induction l as [|kv l IH]; [reflexivity|].
  cbn [map sort_kv]. rewrite IH. apply ins_kv_map.
Qed.

Lemma ins_kv_in : forall {A} (kv x : bytes * A) l, In x (ins_kv kv l) -> x = kv \/ In x l.
Proof.
  induction l as [|kv' l IH]; cbn [ins_kv]; intro H.
  - destruct H as [H|[]]; auto.
  - destruct (bytes_leb (fst kv) (fst kv')).
    + destruct H as [H|H]; auto.
    + destruct H as [H|H]; [right; left; exact H|].
      destruct (IH H); [auto | right; right; assumption].
Qed.
Lemma sort_kv_in : forall {A} (x : bytes * A) l, In x (sort_kv l) -> In x l.
Proof.
  induction l as [|kv l IH]; cbn [sort_kv]; intro H; [exact H|].
  destruct (ins_kv_in _ _ _ H); [left; auto | right; auto].
Qed.
Lemma sort_kv_Forall : forall {A} (Q : bytes * A -> Prop) l, Forall Q l -> Forall Q (sort_kv l).
Proof.
  intros A Q l H. rewrite Forall_forall in *. intros x Hx. apply H. apply sort_kv_in. exact Hx.
Qed.

(** sums are invariant under the sort *)
Definition lsum {A} (h : A -> nat) (l : list A) : nat := fold_right (fun x a => (h x + a)%nat) 0%nat l.
Lemma lsum_ins : forall {A} (h : bytes * A -> nat) kv l, lsum h (ins_kv kv l) = (h kv + lsum h l)%nat.
Proof.
  induction l as [|kv' l IH]; [reflexivity|].
  cbn [ins_kv]. destruct (bytes_leb (fst kv) (fst kv')); [reflexivity|].
  change (lsum h (kv' :: ins_kv kv l)) with (h kv' + lsum h (ins_kv kv l))%nat.
  change (lsum h (kv' :: l)) with (h kv' + lsum h l)%nat. rewrite IH. lia.
Qed.
Lemma lsum_sort : forall {A} (h : bytes * A -> nat) l, lsum h (sort_kv l) = lsum h l.
Proof.
  induction l as [|kv l IH]; [reflexivity|].
  cbn [sort_kv]. rewrite lsum_ins, IH. reflexivity.
Qed.

(** * the token sequence of a value *)
Definition real_tok (neg : bool) (m : N) : token :=
  if m mod 1000000 =? 0 then TInt (real_int neg m) else TReal neg (Some m).

Fixpoint toks (v : obj) : list token :=
  match v with
  | ONull => [TNull]
  | OBool b => [TBool b]
  | OInt z => [TInt z]
  | OReal neg m => [real_tok neg m]
  | OStr s => [TStr s]
  | OHex s => [TStr s]
  | OName n => [TName n]
  | OArr l => TArrS :: flat_map toks l ++ [TArrE]
  | ODict l => TDictS :: flat_map (fun kt => TName (fst kt) :: snd kt)
                                  (sort_kv (map (fun '(k, x) => (k, toks x)) l)) ++ [TDictE]
  | ORef n g => [TInt (Z.of_N n); TInt (Z.of_N g); TName name_R]
  end.

Definition entry_toks (kv : bytes * obj) : list token := TName (fst kv) :: toks (snd kv).

Lemma toks_dict : forall l,
  toks (ODict l) = TDictS :: flat_map entry_toks (sort_kv l) ++ [TDictE].
Proof.
  intro l. cbn [toks]. rewrite map_pair_on_snd, sort_kv_map.
  f_equal. f_equal. induction (sort_kv l) as [|kv r IH]; [reflexivity|].
  cbn [map flat_map]. rewrite IH. reflexivity.
Qed.

Lemma norm_dict : forall l, norm (ODict l) = PDict (map (on_snd norm) (sort_kv l)).
Proof. intro l. cbn [norm]. rewrite map_pair_on_snd, sort_kv_map. reflexivity. Qed.

Lemma ser_dict : forall nm l,
  ser nm (ODict l) = 60 :: 60 :: ser_entries nm (map (on_snd (ser nm)) (sort_kv l)) ++ [10; 62; 62].
Proof. intros. cbn [ser]. rewrite map_pair_on_snd, sort_kv_map. reflexivity. Qed.

(** * Part 1: lexing [ser v] gives [toks v] *)
Definition good_rest (r : bytes) : Prop :=
  match r with [] => True | c :: _ => c = 32 \/ c = 10 \/ c = 93 end.

Definition is_tok (t : token) : bool :=
  match t with TEof | TErr => false | _ => true end.

Lemma lex_all_step : forall bs t r f, lex1 bs = (t, r) -> is_tok t = true ->
  lex_all (S f) bs = t :: lex_all f r.
Proof. intros bs t r f H K. cbn [lex_all]. rewrite H. destruct t; try reflexivity; discriminate. Qed.

Lemma good_rest_nd : forall r, good_rest r -> delim_follows r.
Proof. intros [|c r] H; [exact I|]. cbn in *. destruct H as [->|[->| ->]]; reflexivity. Qed.
Lemma good_rest_nodigit : forall r, good_rest r -> nodigit_follows r.
Proof. intros [|c r] H; [exact I|]. cbn in *. destruct H as [->|[->| ->]]; reflexivity. Qed.

(** keywords *)
Lemma read_word_lit : forall w rest, forallb (fun c => negb (is_nd c)) w = true -> delim_follows rest ->
  read_word (w ++ rest) = (w, rest).
Proof.
  induction w as [|c w IH]; intros rest H D.
  - cbn [app]. destruct rest as [|d r]; [reflexivity|]. cbn in D. cbn [read_word]. rewrite D. reflexivity.
  - cbn [forallb] in H. apply andb_true_iff in H. destruct H as [Hc Hw]. apply negb_true_iff in Hc.
    cbn [app read_word]. rewrite Hc, (IH rest Hw D). reflexivity.
Qed.

Lemma lex1_null : forall rest, good_rest rest -> lex1 (w_null ++ rest) = (TNull, rest).
Proof.
  intros rest G. change (w_null ++ rest) with (110 :: ([117; 108; 108] ++ rest)).
  cbn [lex1]. change (is_ws 110) with false. change (110 =? 59) with false. change (problematic 110) with false.
  cbv iota. unfold lex_tok. change (110 :: [117; 108; 108] ++ rest) with (w_null ++ rest).
  cbn [N.eqb Pos.eqb orb is_digit].
  rewrite (read_word_lit w_null rest eq_refl (good_rest_nd _ G)). reflexivity.
Qed.
Lemma lex1_true : forall rest, good_rest rest -> lex1 (w_true ++ rest) = (TBool true, rest).
Proof.
  intros rest G. change (w_true ++ rest) with (116 :: ([114; 117; 101] ++ rest)).
  cbn [lex1]. change (is_ws 116) with false. change (116 =? 59) with false. change (problematic 116) with false.
  cbv iota. unfold lex_tok. change (116 :: [114; 117; 101] ++ rest) with (w_true ++ rest).
  cbn [N.eqb Pos.eqb orb is_digit].
  rewrite (read_word_lit w_true rest eq_refl (good_rest_nd _ G)). reflexivity.
Qed.
Lemma lex1_false : forall rest, good_rest rest -> lex1 (w_false ++ rest) = (TBool false, rest).
Proof.
  intros rest G. change (w_false ++ rest) with (102 :: ([97; 108; 115; 101] ++ rest)).
  cbn [lex1]. change (is_ws 102) with false. change (102 =? 59) with false. change (problematic 102) with false.
  cbv iota. unfold lex_tok. change (102 :: [97; 108; 115; 101] ++ rest) with (w_false ++ rest).
  cbn [N.eqb Pos.eqb orb is_digit].
  rewrite (read_word_lit w_false rest eq_refl (good_rest_nd _ G)). reflexivity.
Qed.

(** strings, hex strings, names *)
Lemma lex1_str : forall s rest, lex1 (40 :: esc_str s ++ 41 :: rest) = (TStr s, rest).
Proof.
  intros. cbn [lex1]. change (is_ws 40) with false. change (40 =? 59) with false. change (problematic 40) with false.
  cbv iota. unfold lex_tok. cbn [N.eqb Pos.eqb]. rewrite read_lit_esc. reflexivity.
Qed.

Lemma ser_hex_not_lt : forall s rest, match ser_hex s ++ 62 :: rest with 60 :: _ => False | _ => True end.
Proof.
  intros [|b s] rest; [exact I|]. cbn [ser_hex app]. unfold hexdig.
  destruct (b / 16 <? 10) eqn:E.
  - destruct (48 + b / 16) eqn:F; [exact I|]. repeat (destruct p; try exact I). all: lia.
  - apply N.ltb_ge in E. destruct (55 + b / 16) eqn:F; [exact I|]. repeat (destruct p; try exact I). all: lia.
Qed.

Lemma lex1_hex : forall s rest, bytes_ok s = true ->
  lex1 (60 :: ser_hex s ++ 62 :: rest) = (TStr s, rest).
Proof.
  intros s rest H. cbn [lex1]. change (is_ws 60) with false. change (60 =? 59) with false. change (problematic 60) with false.
  cbv iota. unfold lex_tok. cbn [N.eqb Pos.eqb].
  pose proof (ser_hex_not_lt s rest) as K.
  rewrite (read_hex_ser s rest H), (pair_nibs s H) in *.
  destruct (ser_hex s ++ 62 :: rest) as [|c r]; [reflexivity|].
  destruct c as [|p]; [reflexivity|]. repeat (destruct p; try reflexivity). contradiction.
Qed.

Lemma lex1_name : forall n rest, regular_name n = true -> good_rest rest ->
  lex1 (47 :: n ++ rest) = (TName n, rest).
Proof.
  intros n rest H G. cbn [lex1]. change (is_ws 47) with false. change (47 =? 59) with false. change (problematic 47) with false.
  cbv iota. unfold lex_tok. cbn [N.eqb Pos.eqb].
  rewrite (read_name_raw n rest H (good_rest_nd _ G)). reflexivity.
Qed.

(** numbers *)
Definition num_rest (r : bytes) : Prop :=
  match r with [] => True | c :: _ => is_digit c = false /\ c <> 46 /\ c <> 101 /\ c <> 69 end.
Lemma good_rest_num : forall r, good_rest r -> num_rest r.
Proof. intros [|c r] H; [exact I|]. cbn in *. destruct H as [->|[->| ->]]; repeat split; discriminate. Qed.

Definition signed (neg : bool) (n : N) : Z := if neg then (- Z.of_N n)%Z else Z.of_N n.
Lemma number_body_int : forall (neg : bool) (n : N) (rest : bytes), num_rest rest ->
  int_ok (signed neg n) = true ->
  number_body neg (dec n ++ rest) = (TInt (signed neg n), rest).
Proof.
  intros neg n rest R Hz. unfold int_ok in Hz. set (z := signed neg n) in *. unfold number_body.
  assert (ND : nodigit_follows rest) by (destruct rest; [exact I | apply R]).
  rewrite (take_digits_app (dec n) rest (dec_digits n) ND).
  assert (E : match rest with
              | c :: r => if c =? 46 then let '(f, r') := take_digits r in (true, f, r') else (false, [], rest)
              | [] => (false, [], rest) end = (false, @nil N, rest)).
  { destruct rest as [|c r]; [reflexivity|]. destruct R as (_ & R & _).
    apply N.eqb_neq in R. rewrite R. reflexivity. }
  rewrite E.
  assert (F : finish_number neg false (dec n) [] rest = (TInt z, rest)).
  { unfold finish_number. pose proof (dec_nonempty n). destruct (dec n) eqn:D; [contradiction|].
    rewrite <- D, dec_val. change (if neg then (- Z.of_N n)%Z else Z.of_N n) with z. cbv zeta. rewrite Hz. reflexivity. }
  destruct rest as [|c r]; [exact F|].
  destruct R as (_ & _ & R1 & R2). apply N.eqb_neq in R1. apply N.eqb_neq in R2. rewrite R1, R2. exact F.
Qed.

Lemma dec_head_digit : forall n, exists c r, dec n = c :: r /\ is_digit c = true.
Proof.
  intro n. pose proof (dec_nonempty n). pose proof (dec_digits n).
  destruct (dec n) as [|c r]; [contradiction|]. exists c, r. split; [reflexivity|].
  cbn [forallb] in H0. apply andb_true_iff in H0. tauto.
Qed.


Lemma lex1_digit : forall c r, is_digit c = true -> lex1 (c :: r) = number_body false (c :: r).
Proof.
  intros c r H. unfold is_digit in H.
  assert (48 <= c <= 57) by lia.
  cbn [lex1]. unfold is_ws, problematic.
  replace (c =? 9) with false by lia. replace (c =? 10) with false by lia.
  replace (c =? 12) with false by lia. replace (c =? 13) with false by lia.
  replace (c =? 32) with false by lia. replace (c =? 59) with false by lia.
  replace (c =? 7) with false by lia.
  replace (128 <=? c) with false by lia. replace (c <=? 31) with false by lia.
  cbn [orb andb]. unfold lex_tok.
  replace (c =? 37) with false by lia. replace (c =? 47) with false by lia.
  replace (c =? 40) with false by lia. replace (c =? 60) with false by lia.
  replace (c =? 62) with false by lia. replace (c =? 91) with false by lia.
  replace (c =? 93) with false by lia. replace (c =? 116) with false by lia.
  replace (c =? 102) with false by lia. replace (c =? 110) with false by lia.
  replace (c =? 43) with false by lia. replace (c =? 45) with false by lia.
  cbn [orb]. unfold is_digit. replace ((48 <=? c) && (c <=? 57)) with true by lia.
  cbn [orb]. unfold read_number.
  replace (c =? 43) with false by lia. replace (c =? 45) with false by lia. reflexivity.
Qed.

Lemma lex1_minus : forall d r, is_digit d = true -> lex1 (45 :: d :: r) = number_body true (d :: r).
Proof.
  intros d r H. cbn [lex1]. change (is_ws 45) with false. change (45 =? 59) with false. change (problematic 45) with false.
  cbv iota. unfold lex_tok. cbn [N.eqb Pos.eqb orb]. unfold read_number.
  cbn [N.eqb Pos.eqb orb]. rewrite H. reflexivity.
Qed.

Lemma lex1_int : forall z rest, int_ok z = true -> good_rest rest ->
  lex1 (dec_z z ++ rest) = (TInt z, rest).
Proof.
  intros z rest Hz G. pose proof (good_rest_num _ G) as R. unfold int_ok in Hz.
  destruct z as [|p|p]; unfold dec_z.
  - destruct (dec_head_digit (Z.to_N 0)) as (c & r & E & D). rewrite E. cbn [app].
    rewrite (lex1_digit c _ D). change (c :: r ++ rest) with ((c :: r) ++ rest). rewrite <- E.
    apply (number_body_int false (Z.to_N 0) rest R). exact Hz.
  - destruct (dec_head_digit (Z.to_N (Z.pos p))) as (c & r & E & D). rewrite E. cbn [app].
    rewrite (lex1_digit c _ D). change (c :: r ++ rest) with ((c :: r) ++ rest). rewrite <- E.
    pose proof (number_body_int false (Z.to_N (Z.pos p)) rest R) as K. unfold signed in K.
    rewrite Z2N.id in K by lia. apply K. exact Hz.
  - destruct (dec_head_digit (N.pos p)) as (c & r & E & D). rewrite E. cbn [app].
    rewrite (lex1_minus c _ D). change (c :: r ++ rest) with ((c :: r) ++ rest). rewrite <- E.
    pose proof (number_body_int true (N.pos p) rest R) as K. unfold signed in K.
    change (- Z.of_N (N.pos p))%Z with (Z.neg p) in K. apply K. exact Hz.
Qed.

(** * Statements in the form used by Props (serializer output followed by anything the writer
    puts after a value: nothing, a space, a line feed or a closing bracket) *)
Lemma lex_ser_str : forall nm s rest, lex1 (ser nm (OStr s) ++ rest) = (TStr s, rest).
Proof. intros. cbn [ser]. rewrite <- app_comm_cons, <- app_assoc. apply lex1_str. Qed.
Lemma lex_ser_hex : forall nm s rest, bytes_ok s = true -> lex1 (ser nm (OHex s) ++ rest) = (TStr s, rest).
Proof. intros. cbn [ser]. rewrite <- app_comm_cons, <- app_assoc. apply lex1_hex. assumption. Qed.
Lemma lex_ser_name : forall n rest, regular_name n = true -> good_rest rest ->
  lex1 (ser raw_name (OName n) ++ rest) = (TName n, rest).
Proof. intros. cbn [ser]. rewrite <- app_comm_cons. apply lex1_name; assumption. Qed.
Lemma lex_ser_int : forall nm z rest, int_ok z = true -> good_rest rest ->
  lex1 (ser nm (OInt z) ++ rest) = (TInt z, rest).
Proof. intros. apply lex1_int; assumption. Qed.
Lemma lex_ser_null : forall nm rest, good_rest rest -> lex1 (ser nm ONull ++ rest) = (TNull, rest).
Proof. intros. apply lex1_null. assumption. Qed.
Lemma lex_ser_bool : forall nm b rest, good_rest rest -> lex1 (ser nm (OBool b) ++ rest) = (TBool b, rest).
Proof. intros nm [|] rest G; [apply lex1_true | apply lex1_false]; assumption. Qed.

(** the escaper of the incremental writer: every name of bytes, then a delimiter *)
Lemma lex_esc_name : forall n rest, bytes_ok n = true -> good_rest rest ->
  lex1 (47 :: esc_name n ++ rest) = (TName n, rest).
Proof.
  intros n rest H G. cbn [lex1]. change (is_ws 47) with false. change (47 =? 59) with false. change (problematic 47) with false.
  cbv iota. unfold lex_tok. cbn [N.eqb Pos.eqb].
  rewrite (read_name_esc n rest H (good_rest_nd _ G)). reflexivity.
Qed.

(** the escaper of the repaired main writer: every name of bytes, then a delimiter *)
Lemma lex_esc_iso_name : forall n rest, bytes_ok n = true -> good_rest rest ->
  lex1 (47 :: esc_iso n ++ rest) = (TName n, rest).
Proof.
  intros n rest H G. cbn [lex1]. change (is_ws 47) with false. change (47 =? 59) with false. change (problematic 47) with false.
  cbv iota. unfold lex_tok. cbn [N.eqb Pos.eqb].
  rewrite (read_name_esc_iso n rest H (good_rest_nd _ G)). reflexivity.
Qed.
Lemma lex_ser_name_iso : forall n rest, bytes_ok n = true -> good_rest rest ->
  lex1 (ser esc_iso (OName n) ++ rest) = (TName n, rest).
Proof. intros. cbn [ser]. rewrite <- app_comm_cons. apply lex_esc_iso_name; assumption. Qed.

(** * Refuted full statements, by witness *)
Definition b (s : string) : bytes := bytes_of_string s.
Definition roundtrips (v : obj) : bool := opobj_eqb (option_map canon (parse (ser esc_iso v))) (Some (canon (norm v))).
(** the writer before the repair (names raw): kept as a record about [ser raw_name] *)
Definition roundtrips_pinned (v : obj) : bool := opobj_eqb (option_map canon (parse (ser raw_name v))) (Some (canon (norm v))).

Lemma name_raw_refuted_pinned : exists n, regular_name n = false /\ roundtrips_pinned (OName n) = false
                                   /\ parse (ser raw_name (ODict [(n, OInt 1)])) = None
                                   /\ roundtrips (OName n) = true
                                   /\ parse (ser esc_iso (ODict [(n, OInt 1)])) = Some (PDict [(n, PInt 1)]).
Proof. exists (b "My Image"). vm_compute. repeat split. Qed.
(** RECORD of the reader before fix_name_utf8 ([strview_pinned]: always one char per byte): a
    non-ASCII source String (UTF-8 bytes C3 A9 = "é") came back as the two chars U+00C3 U+00A9
    (former finding C09-name-nonascii).  The repaired reader ([strview]) returns the same String;
    the general statement is Full.ser_parse_roundtrip_strings. *)
Lemma name_nonascii_refuted_pinned : exists n, wf (OName n) = true /\ ascii_name n = false
                                   /\ parse (ser esc_iso (OName n)) = Some (PName n)
                                   /\ strview_pinned (PName n) = PName [195; 131; 194; 169]
                                   /\ strview (PName n) = PName n /\ n = [195; 169].
Proof. exists [195; 169]. vm_compute. repeat split. Qed.
Lemma int_int_nameR_refuted : exists v, wf v = false /\ parse (ser esc_iso v) = Some (PArr [PRef 1 0]) /\ roundtrips v = false.
Proof. exists (OArr [OInt 1; OInt 0; OName (b "R")]). vm_compute. repeat split. Qed.
Lemma real_ge_2p63_refuted : exists v, wf v = false /\ parse (ser esc_iso v) = None.
Proof. exists (OReal false 9223372036854775808000000). vm_compute. repeat split. Qed.
Lemma objnum_refuted : exists v, wf v = false /\ parse (ser esc_iso v) = Some (PInt 10000000).
Proof. exists (ORef 10000000 0). vm_compute. repeat split. Qed.
(** RECORD (former finding C09-incr-nonascii-name): with the Latin-1 reader a parsed name held the byte
    E9 as the char U+00E9; the incremental writer escapes the UTF-8 form of the String (C3 A9), which the
    old reader returned as two chars.  With the repaired reader the String "é" (UTF-8 C3 A9) is written
    /#C3#A9 and read back as "é"; general statement: Full.incr_name_roundtrip_strings. *)
Lemma incr_nonascii_refuted_pinned : exists n, bytes_ok n = true /\ parse (ser_incr_name_pinned n) = Some (PName [195; 169]) /\ n = [233]
  /\ strview_pinned (PName [195; 169]) = PName [195; 131; 194; 169]
  /\ option_map strview (parse (ser_incr (OName [195; 169]))) = Some (PName [195; 169]).
Proof. exists [233]. vm_compute. repeat split. Qed.

(** non-vacuity: a nested well-formed value over the awkward alphabet does round-trip *)
Definition sample : obj :=
  OArr [OInt (-9223372036854775808)%Z; OReal true 1500000; OReal false 5000000; OReal true 0;
        OStr (b "a(b\)" ++ [13; 10; 0; 255]); OHex [0; 255; 16];
        ODict [(b "Zed", OArr [OInt 1; OInt 0; ORef 7 0]); (b "A{b}", OName (b "R")); (b "", ONull)];
        OBool true; OArr []; ODict []; ORef 9999999 65535].
Example sample_wf_roundtrips_pinned : wf_pinned sample = true /\ parse (ser raw_name sample) = Some (norm sample).
Proof. vm_compute. split; reflexivity. Qed.
(** the same with names over every ASCII class the old writer broke (white space, delimiters, '#', controls) *)
Definition sample_names : obj :=
  OArr [sample; OName (b "My Image"); OName (b "A#20"); OName (b "Im{1}"); OName [0; 9; 10; 12; 13; 127];
        ODict [(b "a (b) <c> [d] /e %f", OName (b "#")); (b "k 2", OArr [OName (b "x y"); OInt 3])]].
Example sample_wf_roundtrips : wf sample_names = true /\ wf_pinned sample_names = false /\ ascii_names sample_names = true
  /\ parse (ser esc_iso sample_names) = Some (norm sample_names) /\ strview (norm sample_names) = norm sample_names.
Proof. vm_compute. repeat split; reflexivity. Qed.
(** non-ASCII names: 2-, 3- and 4-byte sequences ("é", "中", U+1F600, U+0080, U+FFFF, U+10FFFF), as names and keys *)
Definition sample_utf8 : obj :=
  OArr [sample_names; OName [195; 169]; OName [233 - 6; 184; 173; 49]; OName [240; 159; 152; 128];
        ODict [([99; 97; 102; 195; 169], OName [194; 128]); ([239; 191; 191; 32], OName [244; 143; 191; 191])]].
Example sample_utf8_roundtrips : wf sample_utf8 = true /\ utf8_names sample_utf8 = true /\ ascii_names sample_utf8 = false
  /\ option_map strview (parse (ser esc_iso sample_utf8)) = Some (norm sample_utf8)
  /\ option_map strview_pinned (parse (ser esc_iso sample_utf8)) <> Some (norm sample_utf8).
Proof. vm_compute. repeat split; try reflexivity. discriminate. Qed.
(** what the repaired reader makes of name bytes that are NOT UTF-8 (Latin-1 view kept): a lone E9, a
    truncated C3, the surrogate ED A0 80, the overlong C0 80, F4 90 80 80 (> U+10FFFF), a stray continuation *)
Example name_string_invalid_examples :
  name_string [99; 97; 102; 233] = [99; 97; 102; 195; 169] /\ name_string [195] = [195; 131]
  /\ name_string [237; 160; 128] = [195; 173; 194; 160; 194; 128] /\ name_string [192; 128] = [195; 128; 194; 128]
  /\ name_string [244; 144; 128; 128] = [195; 180; 194; 144; 194; 128; 194; 128] /\ name_string [128] = [194; 128]
  /\ name_string [237; 159; 191] = [237; 159; 191] /\ name_string [244; 143; 191; 191] = [244; 143; 191; 191].
Proof. vm_compute. repeat split; reflexivity. Qed.
