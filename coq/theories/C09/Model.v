(** C09 / C30 — code-shaped models of
      writer/pdf_writer/mod.rs  write_object_value / write_object_value_to_buffer  ([ser]),
      writer/incremental_update.rs  write_name / write_string                     ([esc_name], [ser_hex]),
      parser/lexer.rs  Lexer::next_token and its readers                         ([lex1]),
      parser/objects.rs  PdfObject::parse                                        ([parse]).
    Bytes are [N].  No floats: a real is its sign and its absolute value in millionths,
    i.e. exactly what [format!("{:.6}")] prints (computed by the harness with that very call). *)
From OxVerif Require Import Base.Util.
From OxVerif Require C21.Tok.      (* only [Tok.utf8_valid]: String::from_utf8 succeeds (C21's model, tied by C21's correspondence) *)

(** * Source values (oxidize_pdf::objects::Object, streams not modelled) *)
Inductive obj :=
| ONull
| OBool (b : bool)
| OInt (z : Z)
| OReal (neg : bool) (m : N)          (* |x| rounded to 6 decimals, in millionths; neg = sign bit *)
| OStr (s : bytes)                    (* Object::String: literal string *)
| OHex (s : bytes)                    (* Object::ByteString: hex string *)
| OName (n : bytes)
| OArr (l : list obj)
| ODict (l : list (bytes * obj))      (* HashMap entries in any order *)
| ORef (n g : N).

(** * Parsed values (parser::objects::PdfObject) *)
Inductive pobj :=
| PNull
| PBool (b : bool)
| PInt (z : Z)
| PReal (neg : bool) (m : option N)   (* Some millionths when the literal has <= 6 fraction digits and no exponent *)
| PStr (s : bytes)
| PName (n : bytes)
| PArr (l : list pobj)
| PDict (l : list (bytes * pobj))     (* entries in reading order *)
| PRef (n g : N).

(** * Character classes (u8::is_ascii_whitespace: HT LF FF CR SP — not NUL, not VT) *)
Definition is_ws (c : N) : bool :=
  (c =? 9) || (c =? 10) || (c =? 12) || (c =? 13) || (c =? 32).
(** where read_name / read_word stop *)
Definition is_nd (c : N) : bool :=
  is_ws c || (c =? 47) || (c =? 60) || (c =? 62) || (c =? 91) || (c =? 93)
  || (c =? 40) || (c =? 41) || (c =? 37).
Definition is_digit (c : N) : bool := (48 <=? c) && (c <=? 57).
Definition is_oct (c : N) : bool := (48 <=? c) && (c <=? 55).
Definition is_alpha (c : N) : bool :=
  ((65 <=? c) && (c <=? 90)) || ((97 <=? c) && (c <=? 122)).
Definition hexv (c : N) : option N :=
  if is_digit c then Some (c - 48)
  else if (97 <=? c) && (c <=? 102) then Some (c - 87)
  else if (65 <=? c) && (c <=? 70) then Some (c - 55)
  else None.

(** * Decimal printing (i64::to_string / {} of u32,u16) *)
Fixpoint dec_f (fuel : nat) (n : N) (acc : bytes) : bytes :=
  match fuel with
  | O => acc
  | S f => if n <? 10 then (48 + n) :: acc
           else dec_f f (n / 10) ((48 + n mod 10) :: acc)
  end.
Definition dec (n : N) : bytes := dec_f (S (N.to_nat (N.size n))) n [].

Definition dec_z (z : Z) : bytes :=
  match z with
  | Zneg p => 45 :: dec (Npos p)
  | _ => dec (Z.to_N z)
  end.

(** value of a digit string *)
Definition dval (a : N) (l : bytes) : N := fold_left (fun a d => a * 10 + (d - 48)) l a.

(** * {:.6} with trim_end_matches('0') then trim_end_matches('.') *)
Fixpoint trim0 (l : bytes) : bytes :=          (* drop trailing '0's *)
  match l with
  | [] => []
  | c :: r => match trim0 r with
              | [] => if c =? 48 then [] else [c]
              | r' => c :: r'
              end
  end.
Definition pad6 (x : N) : bytes :=
  [48 + x / 100000 mod 10; 48 + x / 10000 mod 10; 48 + x / 1000 mod 10;
   48 + x / 100 mod 10; 48 + x / 10 mod 10; 48 + x mod 10].
Definition frac6 (x : N) : bytes :=
  match trim0 (pad6 x) with [] => [] | d => 46 :: d end.
(** note: "100.000000" -> "100." -> "100": zeros of the integer part are protected by the point *)
Definition ser_real (neg : bool) (m : N) : bytes :=
  (if neg then [45] else []) ++ dec (m / 1000000) ++ frac6 (m mod 1000000).

(** * escape_pdf_string_bytes *)
Fixpoint esc_str (s : bytes) : bytes :=
  match s with
  | [] => []
  | c :: r => if (c =? 92) || (c =? 40) || (c =? 41) then 92 :: c :: esc_str r
              else c :: esc_str r
  end.

(** * {byte:02X} *)
Definition hexdig (n : N) : N := if n <? 10 then 48 + n else 55 + n.
Fixpoint ser_hex (s : bytes) : bytes :=
  match s with
  | [] => []
  | b :: r => hexdig (b / 16) :: hexdig (b mod 16) :: ser_hex r
  end.

(** * Dictionary order: entries.sort_by_key(|(k,_)| k.as_str()) — bytewise lexicographic *)
Fixpoint bytes_leb (a b : bytes) : bool :=
  match a, b with
  | [], _ => true
  | _ :: _, [] => false
  | x :: a', y :: b' => if x <? y then true else if y <? x then false else bytes_leb a' b'
  end.
Fixpoint ins_kv {A} (kv : bytes * A) (l : list (bytes * A)) : list (bytes * A) :=
  match l with
  | [] => [kv]
  | kv' :: r => if bytes_leb (fst kv) (fst kv') then kv :: l else kv' :: ins_kv kv r
  end.
Fixpoint sort_kv {A} (l : list (bytes * A)) : list (bytes * A) :=
  match l with
  | [] => []
  | kv :: r => ins_kv kv (sort_kv r)
  end.

(** * The serializer.  [nm] is the name emitter: before the repair the main writer wrote names
    RAW ([raw_name], kept for the record lemmas named [..._pinned]); the repaired writer uses
    [esc_iso]; the incremental writer uses [esc_name]. *)
Definition raw_name (n : bytes) : bytes := n.

(** incremental_update.rs write_name: alphanumerics and + - . _ @ $ : ; * ? are kept, all else #XX *)
Definition name_plain (c : N) : bool :=
  is_digit c || is_alpha c
  || (c =? 43) || (c =? 45) || (c =? 46) || (c =? 95) || (c =? 64) || (c =? 36)
  || (c =? 58) || (c =? 59) || (c =? 42) || (c =? 63).
Fixpoint esc_name (n : bytes) : bytes :=
  match n with
  | [] => []
  | c :: r => if name_plain c then c :: esc_name r
              else 35 :: hexdig (c / 16) :: hexdig (c mod 16) :: esc_name r
  end.

(** text/encoding.rs escape_pdf_name (the repaired main writer, ISO 32000-1 7.3.5): a byte in
    0x21..0x7E that is neither '#' nor one of ( ) < > [ ] { } / % is kept, every other byte of
    the name's UTF-8 form is written #XX (upper-case hex) *)
Definition iso_plain (c : N) : bool :=
  (33 <=? c) && (c <=? 126)
  && negb ((c =? 35) || (c =? 40) || (c =? 41) || (c =? 60) || (c =? 62) || (c =? 91) || (c =? 93)
           || (c =? 123) || (c =? 125) || (c =? 47) || (c =? 37)).
Fixpoint esc_iso (n : bytes) : bytes :=
  match n with
  | [] => []
  | c :: r => if iso_plain c then c :: esc_iso r
              else 35 :: hexdig (c / 16) :: hexdig (c mod 16) :: esc_iso r
  end.

Section Ser.
  Variable nm : bytes -> bytes.

  Definition ser_elems (f : obj -> bytes) : list obj -> bytes :=   (* items separated by one space *)
    fix go (l : list obj) : bytes :=
      match l with
      | [] => []
      | v :: r => match r with [] => f v | _ => f v ++ 32 :: go r end
      end.

  Definition ser_entry (kv : bytes * bytes) : bytes :=
    10 :: 47 :: nm (fst kv) ++ 32 :: snd kv.
  Definition ser_entries (l : list (bytes * bytes)) : bytes := flat_map ser_entry l.

  Fixpoint ser (v : obj) : bytes :=
    match v with
    | ONull => [110; 117; 108; 108]
    | OBool true => [116; 114; 117; 101]
    | OBool false => [102; 97; 108; 115; 101]
    | OInt z => dec_z z
    | OReal neg m => ser_real neg m
    | OStr s => 40 :: esc_str s ++ [41]
    | OHex s => 60 :: ser_hex s ++ [62]
    | OName n => 47 :: nm n
    | OArr l => 91 :: ser_elems ser l ++ [93]
    | ODict l => 60 :: 60 :: ser_entries (sort_kv (map (fun '(k, x) => (k, ser x)) l)) ++ [10; 62; 62]
    | ORef n g => dec n ++ 32 :: dec g ++ [32; 82]
    end.
End Ser.

(** * Lexer *)
Inductive token :=
| TBool (b : bool) | TInt (z : Z) | TReal (neg : bool) (m : option N) | TStr (s : bytes)
| TName (n : bytes) | TArrS | TArrE | TDictS | TDictE | TKw (w : bytes) | TNull | TComment
| TEof | TErr.

(** read_name after '/'.  u8::from_str_radix(.., 16) on the two characters after '#':
    accepts a leading '+' (so "#+5" is 5) — kept as the code has it. *)
Definition hex2 (h1 h2 : N) : option N :=
  if h1 =? 43 then hexv h2
  else match hexv h1, hexv h2 with
       | Some a, Some b => Some (a * 16 + b)
       | _, _ => None
       end.

Fixpoint read_name (bs : bytes) : option (bytes * bytes) :=
  match bs with
  | [] => Some ([], [])
  | c :: r =>
      if is_nd c then Some ([], bs)
      else if c =? 35 then
        match r with
        | h1 :: h2 :: r' =>
            match hex2 h1 h2 with
            | Some v => match read_name r' with
                        | Some (n, rest) => Some (v :: n, rest)
                        | None => None
                        end
            | None => None
            end
        | _ => None
        end
      else match read_name r with
           | Some (n, rest) => Some (c :: n, rest)
           | None => None
           end
  end.

Definition unesc (e : N) : N :=
  if e =? 110 then 10 else if e =? 114 then 13 else if e =? 116 then 9
  else if e =? 98 then 8 else if e =? 102 then 12 else e.

Definition cons_res (c : N) (r : option (bytes * bytes)) : option (bytes * bytes) :=
  match r with Some (s, rest) => Some (c :: s, rest) | None => None end.

(** read_literal_string after '('; [d] = paren_depth - 1; strict mode: EOF is an error *)
Fixpoint read_lit (bs : bytes) (d : nat) : option (bytes * bytes) :=
  match bs with
  | [] => None
  | c :: r =>
      if c =? 92 then
        match r with
        | [] => None
        | e :: r1 =>
            if is_oct e then
              match r1 with
              | d1 :: r2 =>
                  if is_oct d1 then
                    match r2 with
                    | d2 :: r3 =>
                        if is_oct d2
                        then cons_res ((((e - 48) * 8 + (d1 - 48)) * 8 + (d2 - 48)) mod 256) (read_lit r3 d)
                        else cons_res ((e - 48) * 8 + (d1 - 48)) (read_lit r2 d)
                    | [] => cons_res ((e - 48) * 8 + (d1 - 48)) (read_lit r2 d)
                    end
                  else cons_res (e - 48) (read_lit r1 d)
              | [] => cons_res (e - 48) (read_lit r1 d)
              end
            else cons_res (unesc e) (read_lit r1 d)
        end
      else if c =? 40 then cons_res c (read_lit r (S d))
      else if c =? 41 then
        match d with
        | O => Some ([], r)
        | S d' => cons_res c (read_lit r d')
        end
      else cons_res c (read_lit r d)
  end.

(** hex string after '<' (not "<<"): hex digits collected, white space skipped, anything else is an
    error in strict mode, EOF is an error *)
Fixpoint read_hexdigits (bs : bytes) : option (list N * bytes) :=
  match bs with
  | [] => None
  | c :: r =>
      if c =? 62 then Some ([], r)
      else match hexv c with
           | Some v => match read_hexdigits r with
                       | Some (l, rest) => Some (v :: l, rest)
                       | None => None
                       end
           | None => if is_ws c then read_hexdigits r else None
           end
  end.
Fixpoint pair_nib (l : list N) : bytes :=
  match l with
  | [] => []
  | [a] => [a * 16]
  | a :: b :: r => (a * 16 + b) :: pair_nib r
  end.

Fixpoint take_digits (bs : bytes) : bytes * bytes :=
  match bs with
  | c :: r => if is_digit c then let '(d, rest) := take_digits r in (c :: d, rest) else ([], bs)
  | [] => ([], [])
  end.

Definition i64_min : Z := (-9223372036854775808)%Z.
Definition i64_max : Z := 9223372036854775807%Z.

(** the final str::parse of read_number *)
Definition finish_number (neg has_dot : bool) (ip fp r2 : bytes) : token * bytes :=
  if has_dot then
    match ip ++ fp with
    | [] => (TErr, [])
    | _ => (TReal neg (if Nat.leb (length fp) 6
                       then Some (dval 0 ip * 1000000 + dval 0 fp * 10 ^ (6 - N.of_nat (length fp)))
                       else None), r2)
    end
  else
    match ip with
    | [] => (TErr, [])
    | _ => let z := (if neg then - Z.of_N (dval 0 ip) else Z.of_N (dval 0 ip))%Z in
           if (i64_min <=? z)%Z && (z <=? i64_max)%Z then (TInt z, r2) else (TErr, [])
    end.

(** scientific notation: always a real; its value is not tracked by the model *)
Definition sci_number (neg : bool) (ip fp r3 : bytes) : token * bytes :=
  let r4 := match r3 with
            | s :: r' => if (s =? 43) || (s =? 45) then r' else r3
            | [] => r3
            end in
  let '(ex, r5) := take_digits r4 in
  match ip ++ fp, ex with
  | _ :: _, _ :: _ => (TReal neg None, r5)
  | _, _ => (TErr, [])
  end.

(** digits, at most one '.', digits, optional exponent *)
Definition number_body (neg : bool) (bs1 : bytes) : token * bytes :=
  let '(ip, r1) := take_digits bs1 in
  let '(has_dot, fp, r2) :=
    match r1 with
    | c :: r => if c =? 46 then let '(f, r') := take_digits r in (true, f, r') else (false, [], r1)
    | [] => (false, [], r1)
    end in
  match r2 with
  | c :: r3 => if (c =? 101) || (c =? 69) then sci_number neg ip fp r3
               else finish_number neg has_dot ip fp r2
  | [] => finish_number neg has_dot ip fp r2
  end.

(** read_number; [bs] starts with + - . or a digit *)
Definition read_number (bs : bytes) : token * bytes :=
  match bs with
  | c :: r =>
      if (c =? 43) || (c =? 45) then
        match r with
        | nx :: _ => if negb (is_digit nx) && negb (nx =? 46) then (TErr, [])
                     else number_body (c =? 45) r
        | [] => number_body (c =? 45) r
        end
      else number_body false bs
  | [] => number_body false bs
  end.

(** read_word: up to white space or one of / < > [ ] ( ) % *)
Fixpoint read_word (bs : bytes) : bytes * bytes :=
  match bs with
  | c :: r => if is_nd c then ([], bs) else let '(w, rest) := read_word r in (c :: w, rest)
  | [] => ([], [])
  end.

Definition w_true := [116; 114; 117; 101].
Definition w_false := [102; 97; 108; 115; 101].
Definition w_null := [110; 117; 108; 108].
Definition w_stream := [115; 116; 114; 101; 97; 109].
Definition w_endstream := [101; 110; 100; 115; 116; 114; 101; 97; 109].
Definition w_obj := [111; 98; 106].
Definition w_endobj := [101; 110; 100; 111; 98; 106].
Definition w_startxref := [115; 116; 97; 114; 116; 120; 114; 101; 102].

Definition keyword (w : bytes) : token :=
  if bytes_eqb w w_stream || bytes_eqb w w_endstream || bytes_eqb w w_obj
     || bytes_eqb w w_endobj || bytes_eqb w w_startxref then TKw w else TErr.

Fixpoint skip_comment (bs : bytes) : bytes :=
  match bs with
  | c :: r => if (c =? 10) || (c =? 13) then bs else skip_comment r
  | [] => []
  end.

(** is_problematic_encoding_char with lenient_syntax = false (ParseOptions::default) *)
Definition problematic (c : N) : bool :=
  ((128 <=? c) && (c <=? 159)) || (c =? 7)
  || ((c <=? 31) && negb (c =? 9) && negb (c =? 10) && negb (c =? 13)).

Fixpoint all_ws (bs : bytes) : bool :=
  match bs with [] => true | c :: r => is_ws c && all_ws r end.

(** one token starting at the non-white-space byte [c] ([bs] = c :: r) *)
Definition lex_tok (c : N) (r bs : bytes) : token * bytes :=
  if c =? 37 then (TComment, skip_comment r)
  else if c =? 47 then
    match read_name r with Some (n, rest) => (TName n, rest) | None => (TErr, []) end
  else if c =? 40 then
    match read_lit r 0 with Some (s, rest) => (TStr s, rest) | None => (TErr, []) end
  else if c =? 60 then
    match r with
    | 60 :: r' => (TDictS, r')
    | _ => match read_hexdigits r with
           | Some (l, rest) => (TStr (pair_nib l), rest)
           | None => (TErr, [])
           end
    end
  else if c =? 62 then
    match r with 62 :: r' => (TDictE, r') | _ => (TErr, []) end
  else if c =? 91 then (TArrS, r)
  else if c =? 93 then (TArrE, r)
  else if (c =? 116) || (c =? 102) then
    let '(w, rest) := read_word bs in
    if bytes_eqb w w_true then (TBool true, rest)
    else if bytes_eqb w w_false then (TBool false, rest)
    else match keyword w with TErr => (TErr, []) | t => (t, rest) end
  else if c =? 110 then
    let '(w, rest) := read_word bs in
    if bytes_eqb w w_null then (TNull, rest)
    else match keyword w with TErr => (TErr, []) | t => (t, rest) end
  else if (c =? 43) || (c =? 45) || is_digit c || (c =? 46) then read_number bs
  else if c =? 82 then (TName [82], r)
  else if is_alpha c then
    let '(w, rest) := read_word bs in
    match keyword w with TErr => (TErr, []) | t => (t, rest) end
  else (TErr, []).

(** Lexer::next_token without the push-back buffer (which lives in the token list below):
    skip white space; ';' is skipped; a "problematic" byte is skipped if something other than
    white space follows (lenient_encoding = true), else it is an error *)
Fixpoint lex1 (bs : bytes) : token * bytes :=
  match bs with
  | [] => (TEof, [])
  | c :: r =>
      if is_ws c then lex1 r
      else if c =? 59 then lex1 r
      else if problematic c then (if all_ws r then (TErr, []) else lex1 r)
      else lex_tok c r bs
  end.

(** the token sequence the parser can observe.  The code lexes on demand; since lexing has no
    effect besides advancing, asking for the k-th token on demand or taking the k-th element of
    this list is the same thing: the list ends in TEof, or in TErr where the code would raise. *)
Fixpoint lex_all (fuel : nat) (bs : bytes) : list token :=
  match fuel with
  | O => [TErr]
  | S f => let '(t, r) := lex1 bs in
           match t with
           | TEof => [TEof]
           | TErr => [TErr]
           | _ => t :: lex_all f r
           end
  end.

(** * Parser (PdfObject::parse) over the token sequence; push_token = cons *)
Definition next (ts : list token) : token * list token :=
  match ts with
  | [] => (TEof, [])
  | t :: r => (t, r)
  end.

Definition name_R : bytes := [82].
Definition in_objnum (i : Z) : bool := (0 <=? i)%Z && (i <=? 9999999)%Z.
Definition in_gen (g : Z) : bool := (0 <=? g)%Z && (g <=? 65535)%Z.

(** the Integer arm: look ahead for "gen R", push back what was peeked *)
Definition parse_int (i : Z) (ts : list token) : option (pobj * list token) :=
  if negb (in_objnum i) then Some (PInt i, ts)
  else
    match next ts with
    | (TErr, _) => None
    | (TInt g, ts1) =>
        if in_gen g then
          match next ts1 with
          | (TErr, _) => None
          | (TName n, ts2) =>
              if bytes_eqb n name_R then Some (PRef (Z.to_N i) (Z.to_N g), ts2)
              else Some (PInt i, TInt g :: TName n :: ts2)
          | (t2, ts2) => Some (PInt i, TInt g :: t2 :: ts2)
          end
        else Some (PInt i, TInt g :: ts1)
    | (t1, ts1) => Some (PInt i, t1 :: ts1)
    end.

Fixpoint parse_tok (fuel : nat) (t : token) (ts : list token) {struct fuel} : option (pobj * list token) :=
  match fuel with
  | O => None
  | S f =>
      match t with
      | TNull => Some (PNull, ts)
      | TBool b => Some (PBool b, ts)
      | TInt i => parse_int i ts
      | TReal n m => Some (PReal n m, ts)
      | TStr s => Some (PStr s, ts)
      | TName n => Some (PName n, ts)
      | TArrS => match parse_arr f ts with
                 | Some (l, ts') => Some (PArr l, ts')
                 | None => None
                 end
      | TDictS => match parse_dict f ts with
                  | Some (l, ts') => after_dict f l ts'
                  | None => None
                  end
      | TComment => let '(t1, ts1) := next ts in parse_tok f t1 ts1
      | _ => None
      end
  end
with parse_arr (fuel : nat) (ts : list token) {struct fuel} : option (list pobj * list token) :=
  match fuel with
  | O => None
  | S f =>
      match next ts with
      | (TErr, _) => None
      | (TArrE, ts1) => Some ([], ts1)
      | (TComment, ts1) => parse_arr f ts1
      | (t, ts1) => match parse_tok f t ts1 with
                    | Some (o, ts2) => match parse_arr f ts2 with
                                       | Some (l, ts3) => Some (o :: l, ts3)
                                       | None => None
                                       end
                    | None => None
                    end
      end
  end
with parse_dict (fuel : nat) (ts : list token) {struct fuel} : option (list (bytes * pobj) * list token) :=
  match fuel with
  | O => None
  | S f =>
      match next ts with
      | (TDictE, ts1) => Some ([], ts1)
      | (TComment, ts1) => parse_dict f ts1
      | (TName k, ts1) =>
          match next ts1 with
          | (TErr, _) => None
          | (t, ts2) => match parse_tok f t ts2 with
                        | Some (o, ts3) => match parse_dict f ts3 with
                                           | Some (l, ts4) => Some ((k, o) :: l, ts4)
                                           | None => None
                                           end
                        | None => None
                        end
          end
      | _ => None
      end
  end
(** parse_dictionary_or_stream: peek one token for the [stream] keyword (stream bodies are
    not modelled: None), skip comments, push anything else back *)
with after_dict (fuel : nat) (l : list (bytes * pobj)) (ts : list token) {struct fuel} : option (pobj * list token) :=
  match fuel with
  | O => None
  | S f =>
      match next ts with
      | (TErr, _) => None
      | (TComment, ts1) => after_dict f l ts1
      | (TKw w, ts1) => if bytes_eqb w w_stream then None else Some (PDict l, TKw w :: ts1)
      | (t, ts1) => Some (PDict l, t :: ts1)
      end
  end.

Definition parse (bs : bytes) : option pobj :=
  let ts := lex_all (S (length bs)) bs in
  let '(t, r) := next ts in
  match t with
  | TErr => None
  | _ => match parse_tok (4 * length ts + 4) t r with
         | Some (o, _) => Some o
         | None => None
         end
  end.

(** * Normal form a round trip is allowed to produce ("same value"):
    a real that prints without fraction digits comes back as that integer, dictionaries as
    finite maps (entries sorted by key), ByteString and String are both strings. *)
Definition real_int (neg : bool) (m : N) : Z :=
  if neg then (- Z.of_N (m / 1000000))%Z else Z.of_N (m / 1000000).

Fixpoint norm (v : obj) : pobj :=
  match v with
  | ONull => PNull
  | OBool b => PBool b
  | OInt z => PInt z
  | OReal neg m => if m mod 1000000 =? 0 then PInt (real_int neg m) else PReal neg (Some m)
  | OStr s => PStr s
  | OHex s => PStr s
  | OName n => PName n
  | OArr l => PArr (map norm l)
  | ODict l => PDict (sort_kv (map (fun '(k, x) => (k, norm x)) l))
  | ORef n g => PRef n g
  end.

(** * Executable equality and canonical form of parsed values (HashMap = finite map:
    last binding of a key wins, order irrelevant) *)
Fixpoint remove_key {A} (k : bytes) (l : list (bytes * A)) : list (bytes * A) :=
  match l with
  | [] => []
  | kv :: r => if bytes_eqb (fst kv) k then remove_key k r else kv :: remove_key k r
  end.
(** HashMap::insert, list in reverse reading order as accumulator *)
Fixpoint dedup_last {A} (l : list (bytes * A)) : list (bytes * A) :=
  match l with
  | [] => []
  | kv :: r => if existsb (fun kv' => bytes_eqb (fst kv') (fst kv)) r then dedup_last r
               else kv :: dedup_last r
  end.
Fixpoint canon (p : pobj) : pobj :=
  match p with
  | PArr l => PArr (map canon l)
  | PDict l => PDict (sort_kv (dedup_last (map (fun '(k, x) => (k, canon x)) l)))
  | _ => p
  end.

Definition optN_eqb (a b : option N) : bool :=
  match a, b with
  | Some x, Some y => x =? y
  | None, _ => true          (* value not tracked by the model: any real accepted *)
  | _, None => false
  end.

Fixpoint pobj_eqb (a b : pobj) {struct a} : bool :=
  match a, b with
  | PNull, PNull => true
  | PBool x, PBool y => Bool.eqb x y
  | PInt x, PInt y => (x =? y)%Z
  | PReal n x, PReal n' y => Bool.eqb n n' && optN_eqb x y
  | PStr x, PStr y => bytes_eqb x y
  | PName x, PName y => bytes_eqb x y
  | PArr x, PArr y =>
      (fix go (x : list pobj) (y : list pobj) : bool :=
         match x, y with
         | [], [] => true
         | a :: x', b :: y' => pobj_eqb a b && go x' y'
         | _, _ => false
         end) x y
  | PDict x, PDict y =>
      (fix go (x : list (bytes * pobj)) (y : list (bytes * pobj)) : bool :=
         match x, y with
         | [], [] => true
         | a :: x', b :: y' => bytes_eqb (fst a) (fst b) && pobj_eqb (snd a) (snd b) && go x' y'
         | _, _ => false
         end) x y
  | PRef n g, PRef n' g' => (n =? n') && (g =? g')
  | _, _ => false
  end.

Definition opobj_eqb (a b : option pobj) : bool :=
  match a, b with
  | Some x, Some y => pobj_eqb x y
  | None, None => true
  | _, _ => false
  end.

(** * Well-formedness: the values for which the round trip is claimed *)
Definition regular_char (c : N) : bool := negb (is_nd c) && negb (c =? 35).
Definition regular_name (n : bytes) : bool := forallb regular_char n.

Definition real_ok (neg : bool) (m : N) : bool :=
  if m mod 1000000 =? 0 then
    let z := real_int neg m in (i64_min <=? z)%Z && (z <=? i64_max)%Z
  else true.
Definition int_ok (z : Z) : bool := (i64_min <=? z)%Z && (z <=? i64_max)%Z.

(** what the first token of a value looks like to the reference look-ahead *)
Inductive cls := CInt (z : Z) | CNameR | COther.
Definition tokcls (v : obj) : cls :=
  match v with
  | OInt z => CInt z
  | OReal neg m => if m mod 1000000 =? 0 then CInt (real_int neg m) else COther
  | OName n => if bytes_eqb n name_R then CNameR else COther
  | _ => COther
  end.
(** [i g /R] inside an array reads as the reference "i g R" *)
Definition collide (a b c : obj) : bool :=
  match tokcls a, tokcls b, tokcls c with
  | CInt i, CInt g, CNameR => in_objnum i && in_gen g
  | _, _, _ => false
  end.
Fixpoint arr_ok (l : list obj) : bool :=
  match l with
  | a :: r => match r with
              | b :: c :: _ => negb (collide a b c)
              | _ => true
              end && arr_ok r
  | [] => true
  end.

(** [nok]: which names the emitter in use can carry.  The repaired writer ([esc_iso]): every
    name (a name is the UTF-8 byte string of the Rust String, bytes < 256); the writer before
    the repair ([raw_name]): regular names only. *)
Fixpoint wf_gen (nok : bytes -> bool) (v : obj) : bool :=
  match v with
  | OInt z => int_ok z
  | OReal neg m => real_ok neg m
  | OHex s => bytes_ok s
  | OName n => nok n
  | OArr l => forallb (wf_gen nok) l && arr_ok l
  | ODict l => forallb (fun kv => nok (fst kv) && wf_gen nok (snd kv)) l
  | ORef n g => (n <=? 9999999) && (g <=? 65535)
  | _ => true
  end.
Definition wf : obj -> bool := wf_gen bytes_ok.
Definition wf_pinned : obj -> bool := wf_gen regular_name.

(** parser/lexer.rs read_name AFTER fix_name_utf8: the decoded name bytes [n] become the name String
    through String::from_utf8 when they are valid UTF-8 (the String's UTF-8 form is then [n] itself);
    only bytes that are NOT valid UTF-8 keep the old one-char-per-byte (Latin-1) view, whose own UTF-8
    form is [l1_utf8 n].  [name_string n] = the UTF-8 bytes of the Rust String the reader returns.
    [Tok.utf8_valid] (C21) is exactly str::from_utf8's acceptance: lead bytes C2..DF / E0..EF / F0..F4
    only, E0 needs A0..BF (no overlongs), ED needs 80..9F (no surrogates), F0 needs 90..BF,
    F4 needs 80..8F (nothing above U+10FFFF), truncated sequences rejected.
    [strview] re-expresses every name of a parsed value (names = decoded bytes, which is what [lex1] /
    [parse] carry) as those Strings, so that it can be compared with the source names (UTF-8 of the
    source Strings).  The parser itself looks at a name String only to compare it with "R"
    ([name_string n] = "R" iff [n] = "R") and to insert it as a HashMap key (hence [canon] AFTER
    [strview]: the bytes E9 and C3 A9 are one key). *)
Definition l1_utf8 (n : bytes) : bytes :=
  flat_map (fun c => if c <? 128 then [c] else [192 + c / 64; 128 + c mod 64]) n.
Definition name_string (n : bytes) : bytes := if Tok.utf8_valid n then n else l1_utf8 n.
Fixpoint strview (p : pobj) : pobj :=
  match p with
  | PName n => PName (name_string n)
  | PArr l => PArr (map strview l)
  | PDict l => PDict (map (fun '(k, x) => (name_string k, strview x)) l)
  | _ => p
  end.
(** the reader BEFORE fix_name_utf8 (always the Latin-1 view): kept only for the record lemmas named
    [..._pinned] (former findings C09-name-nonascii, C30-name-nonascii, C09-incr-nonascii-name) *)
Fixpoint strview_pinned (p : pobj) : pobj :=
  match p with
  | PName n => PName (l1_utf8 n)
  | PArr l => PArr (map strview_pinned l)
  | PDict l => PDict (map (fun '(k, x) => (l1_utf8 k, strview_pinned x)) l)
  | _ => p
  end.
(** every Rust String is valid UTF-8: the source values that exist *)
Fixpoint utf8_names (v : obj) : bool :=
  match v with
  | OName n => Tok.utf8_valid n
  | OArr l => forallb utf8_names l
  | ODict l => forallb (fun kv => Tok.utf8_valid (fst kv) && utf8_names (snd kv)) l
  | _ => true
  end.
Definition ascii_name (n : bytes) : bool := forallb (fun c => c <? 128) n.
Fixpoint ascii_names (v : obj) : bool :=
  match v with
  | OName n => ascii_name n
  | OArr l => forallb ascii_names l
  | ODict l => forallb (fun kv => ascii_name (fst kv) && ascii_names (snd kv)) l
  | _ => true
  end.

(** * Correspondence checkers *)
(** In every channel the harness transports a parsed name as the UTF-8 bytes of the Rust String
    the library returned (chars may exceed U+00FF since fix_name_utf8); the model's parse result is
    brought to the same view by [strview] before [canon]. *)
Definition parse_strings (bs : bytes) : option pobj := option_map (fun p => canon (strview p)) (parse bs).
(** channel ser: (which serializer is irrelevant: both Rust functions are run and must agree)
    case = (source value, bytes the writer produced, what PdfObject::parse returned on them) *)
Definition ser_case := (obj * bytes * option pobj)%type.
Definition ser_code (c : ser_case) : N :=
  let '(v, impl_bytes, impl_parsed) := c in
  let model_ok := bytes_eqb (ser esc_iso v) impl_bytes
                  && opobj_eqb (parse_strings impl_bytes) impl_parsed in
  let prop_ok := opobj_eqb (Some (canon (norm v))) (option_map canon impl_parsed) in
  code_of model_ok prop_ok.

(** channel lex: arbitrary token text -> what PdfObject::parse returned (model only; the
    property bit is set when a writer-shaped escape round trip is given: see [esc_code]) *)
Definition lex_case := (bytes * option pobj)%type.
Definition lex_code (c : lex_case) : N :=
  let '(bs, impl_parsed) := c in
  code_of (opobj_eqb (parse_strings bs) impl_parsed) true.

(** channel incr: incremental writer (names #XX-escaped, strings hex) *)
(** a parsed name is a Rust String (any chars since fix_name_utf8); a source name [n] is its UTF-8
    form, and the incremental writer escapes exactly those bytes *)
Fixpoint ser_incr (v : obj) : bytes :=
  match v with
  | OName n => 47 :: esc_name n
  | OStr s | OHex s => 60 :: ser_hex s ++ [62]
  | OArr l => 91 :: ser_elems ser_incr l ++ [93]
  | ODict l => 60 :: 60 :: 32 ::
               flat_map (fun kv => 47 :: esc_name (fst kv) ++ 32 :: snd kv ++ [32])
                        (sort_kv (map (fun '(k, x) => (k, ser_incr x)) l)) ++ [62; 62]
  | OReal _ _ => []       (* shortest-round-trip reals: not modelled, not generated *)
  | _ => ser raw_name v
  end.
(** the harness of the time before fix_name_utf8 handed a source name over as its Latin-1 bytes
    (chars <= U+00FF); the writer escaped the UTF-8 form of that String: record only *)
Definition ser_incr_name_pinned (n : bytes) : bytes := 47 :: esc_name (l1_utf8 n).
Definition incr_code (c : ser_case) : N :=
  let '(v, impl_bytes, impl_parsed) := c in
  let model_ok := bytes_eqb (ser_incr v) impl_bytes
                  && opobj_eqb (parse_strings impl_bytes) impl_parsed in
  let prop_ok := opobj_eqb (Some (canon (norm v))) impl_parsed in
  code_of model_ok prop_ok.
