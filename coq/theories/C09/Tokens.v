(** C09 — token-level round trips: what one reader of the lexer returns on what the writer
    (or the incremental writer's escaper) emits for one token.  All by induction over the
    byte string / by a complete sweep of the 256 byte values. *)
From OxVerif Require Import Base.Util C09.Model.
Require Import Lia ZifyBool.
Ltac Zify.zify_post_hook ::= Z.div_mod_to_equations.

(** ** literal strings: every byte string *)
Lemma read_lit_esc : forall s rest,
  read_lit (esc_str s ++ 41 :: rest) 0 = Some (s, rest).
Proof.
  induction s as [|c s IH]; intro rest.
  - reflexivity.
  - cbn [esc_str].
    destruct (c =? 92) eqn:E92.
    { apply N.eqb_eq in E92. subst c. cbn. rewrite IH. reflexivity. }
    destruct (c =? 40) eqn:E40.
    { apply N.eqb_eq in E40. subst c. cbn. rewrite IH. reflexivity. }
    destruct (c =? 41) eqn:E41.
    { apply N.eqb_eq in E41. subst c. cbn. rewrite IH. reflexivity. }
    cbn [orb app read_lit]. rewrite E92, E40, E41, IH. reflexivity.
Qed.

(** ** hex strings: every string of bytes < 256 *)
Fixpoint nibs (s : bytes) : list N :=
  match s with [] => [] | b :: r => b / 16 :: b mod 16 :: nibs r end.

Definition hex_byte_ok (b : N) : bool :=
  match hexv (hexdig (b / 16)), hexv (hexdig (b mod 16)) with
  | Some x, Some y => (x =? b / 16) && (y =? b mod 16) && ((b / 16) * 16 + b mod 16 =? b)
                      && negb (hexdig (b / 16) =? 62) && negb (hexdig (b mod 16) =? 62)
                      && (hexdig (b / 16) <? 128) && (hexdig (b mod 16) <? 128)
  | _, _ => false
  end.
Lemma hex_byte_sweep : forall b, b < 256 -> hex_byte_ok b = true.
Proof. apply allb_spec. vm_compute. reflexivity. Qed.

Lemma read_hex_ser : forall s rest, bytes_ok s = true ->
  read_hexdigits (ser_hex s ++ 62 :: rest) = Some (nibs s, rest).
Proof.
  induction s as [|b s IH]; intros rest H.
  - reflexivity.
  - cbn [bytes_ok forallb] in H. apply andb_true_iff in H. destruct H as [Hb Hs].
    unfold byte_ok in Hb. apply N.ltb_lt in Hb.
    pose proof (hex_byte_sweep b Hb) as K. unfold hex_byte_ok in K.
    destruct (hexv (hexdig (b / 16))) as [x|] eqn:E1; [|discriminate].
    destruct (hexv (hexdig (b mod 16))) as [y|] eqn:E2; [|discriminate].
    repeat (apply andb_true_iff in K; destruct K as [K ?]).
    apply N.eqb_eq in K.
    repeat match goal with H : (_ =? _) = true |- _ => apply N.eqb_eq in H end.
    repeat match goal with H : negb (_ =? _) = true |- _ => apply negb_true_iff in H end.
    cbn [ser_hex app read_hexdigits nibs].
    rewrite H2, E1. rewrite H1, E2. rewrite (IH rest Hs). subst x y. reflexivity.
Qed.

Lemma pair_nibs : forall s, bytes_ok s = true -> pair_nib (nibs s) = s.
Proof.
  induction s as [|b s IH]; intro H.
  - reflexivity.
  - cbn [bytes_ok forallb] in H. apply andb_true_iff in H. destruct H as [Hb Hs].
    unfold byte_ok in Hb. apply N.ltb_lt in Hb.
    pose proof (hex_byte_sweep b Hb) as K. unfold hex_byte_ok in K.
    destruct (hexv (hexdig (b / 16))); [|discriminate].
    destruct (hexv (hexdig (b mod 16))); [|discriminate].
    repeat (apply andb_true_iff in K; destruct K as [K ?]).
    cbn [nibs pair_nib]. rewrite (IH Hs).
    repeat match goal with H : (_ =? _) = true |- _ => apply N.eqb_eq in H end.
    congruence.
Qed.

(** ** names *)
Definition delim_follows (rest : bytes) : Prop :=
  match rest with [] => True | c :: _ => is_nd c = true end.

(** raw emission: exactly the regular names *)
Lemma read_name_raw : forall n rest, regular_name n = true -> delim_follows rest ->
  read_name (n ++ rest) = Some (n, rest).
Proof.
  induction n as [|c n IH]; intros rest H D.
  - cbn [app]. destruct rest as [|d r]; [reflexivity|]. cbn in D. cbn [read_name]. rewrite D. reflexivity.
  - cbn [regular_name forallb] in H. apply andb_true_iff in H. destruct H as [Hc Hn].
    unfold regular_char in Hc. apply andb_true_iff in Hc. destruct Hc as [H1 H2].
    apply negb_true_iff in H1. apply negb_true_iff in H2.
    cbn [app read_name]. rewrite H1, H2. rewrite (IH rest Hn D). reflexivity.
Qed.

(** #XX escaping (incremental writer; shape of the proposed repair): every name of bytes < 256 *)
Definition esc_byte_ok (c : N) : bool :=
  if name_plain c then negb (is_nd c) && negb (c =? 35)
  else negb (is_nd 35) &&
       match hex2 (hexdig (c / 16)) (hexdig (c mod 16)) with Some v => v =? c | None => false end.
Lemma esc_byte_sweep : forall c, c < 256 -> esc_byte_ok c = true.
Proof. apply allb_spec. vm_compute. reflexivity. Qed.

Lemma read_name_esc : forall n rest, bytes_ok n = true -> delim_follows rest ->
  read_name (esc_name n ++ rest) = Some (n, rest).
Proof.
  induction n as [|c n IH]; intros rest H D.
  - cbn [esc_name app]. destruct rest as [|d r]; [reflexivity|]. cbn in D. cbn [read_name]. rewrite D. reflexivity.
  - cbn [bytes_ok forallb] in H. apply andb_true_iff in H. destruct H as [Hb Hs].
    unfold byte_ok in Hb. apply N.ltb_lt in Hb.
    pose proof (esc_byte_sweep c Hb) as K. unfold esc_byte_ok in K.
    cbn [esc_name]. destruct (name_plain c).
    + apply andb_true_iff in K. destruct K as [K1 K2].
      apply negb_true_iff in K1. apply negb_true_iff in K2.
      cbn [app read_name]. rewrite K1, K2, (IH rest Hs D). reflexivity.
    + apply andb_true_iff in K. destruct K as [_ K].
      destruct (hex2 (hexdig (c / 16)) (hexdig (c mod 16))) as [v|] eqn:E; [|discriminate].
      apply N.eqb_eq in K. subst v.
      cbn [app read_name]. change (is_nd 35) with false. change (35 =? 35) with true. cbv iota.
      rewrite E, (IH rest Hs D). reflexivity.
Qed.

(** #XX escaping of the repaired main writer (escape_pdf_name): every name of bytes < 256.
    [iso_plain] bytes are exactly bytes at which neither reader stops and which are not '#'. *)
Definition esc_iso_byte_ok (c : N) : bool :=
  if iso_plain c then negb (is_nd c) && negb (c =? 35)
  else negb (is_nd 35) &&
       match hex2 (hexdig (c / 16)) (hexdig (c mod 16)) with Some v => v =? c | None => false end.
Lemma esc_iso_byte_sweep : forall c, c < 256 -> esc_iso_byte_ok c = true.
Proof. apply allb_spec. vm_compute. reflexivity. Qed.

Lemma read_name_esc_iso : forall n rest, bytes_ok n = true -> delim_follows rest ->
  read_name (esc_iso n ++ rest) = Some (n, rest).
Proof.
  induction n as [|c n IH]; intros rest H D.
  - cbn [esc_iso app]. destruct rest as [|d r]; [reflexivity|]. cbn in D. cbn [read_name]. rewrite D. reflexivity.
  - cbn [bytes_ok forallb] in H. apply andb_true_iff in H. destruct H as [Hb Hs].
    unfold byte_ok in Hb. apply N.ltb_lt in Hb.
    pose proof (esc_iso_byte_sweep c Hb) as K. unfold esc_iso_byte_ok in K.
    cbn [esc_iso]. destruct (iso_plain c).
    + apply andb_true_iff in K. destruct K as [K1 K2].
      apply negb_true_iff in K1. apply negb_true_iff in K2.
      cbn [app read_name]. rewrite K1, K2, (IH rest Hs D). reflexivity.
    + apply andb_true_iff in K. destruct K as [_ K].
      destruct (hex2 (hexdig (c / 16)) (hexdig (c mod 16))) as [v|] eqn:E; [|discriminate].
      apply N.eqb_eq in K. subst v.
      cbn [app read_name]. change (is_nd 35) with false. change (35 =? 35) with true. cbv iota.
      rewrite E, (IH rest Hs D). reflexivity.
Qed.

(** the escaper changes nothing on the names the old writer could carry in 0x21..0x7E, and
    is the identity exactly on [iso_plain] names *)
Lemma esc_iso_plain : forall n, forallb iso_plain n = true -> esc_iso n = n.
Proof.
  induction n as [|c n IH]; intro H; [reflexivity|].
  cbn [forallb] in H. apply andb_true_iff in H. destruct H as [Hc Hn].
  cbn [esc_iso]. rewrite Hc, (IH Hn). reflexivity.
Qed.

(** ** decimal integers *)
Lemma dval_app : forall l1 l2 a, dval a (l1 ++ l2) = dval (dval a l1) l2.
Proof. intros. unfold dval. apply fold_left_app. Qed.

Lemma dec_f_acc : forall f n acc, dec_f f n acc = dec_f f n [] ++ acc.
Proof.
  induction f as [|f IH]; intros n acc.
  - reflexivity.
  - cbn [dec_f]. destruct (n <? 10).
    + reflexivity.
    + rewrite (IH (n / 10) ((48 + n mod 10) :: acc)).
      rewrite (IH (n / 10) [48 + n mod 10]). rewrite <- app_assoc. reflexivity.
Qed.

Lemma dec_f_val : forall f n, n < 2 ^ N.of_nat f -> dval 0 (dec_f f n []) = n.
Proof.
  induction f as [|f IH]; intros n H.
  - cbn in H. assert (n = 0) by lia. subst. reflexivity.
  - cbn [dec_f]. destruct (n <? 10) eqn:E.
    + apply N.ltb_lt in E. cbn. lia.
    + apply N.ltb_ge in E. rewrite dec_f_acc, dval_app.
      rewrite IH.
      * cbn. pose proof (N.div_mod n 10). pose proof (N.mod_lt n 10). lia.
      * rewrite Nnat.Nat2N.inj_succ, N.pow_succ_r' in H.
        apply N.div_lt_upper_bound; [lia|].
        nia.
Qed.

Lemma is_digit_48 : forall d, d < 10 -> is_digit (48 + d) = true.
Proof. intros d H. unfold is_digit. lia. Qed.

Lemma dec_f_digits : forall f n, forallb is_digit (dec_f f n []) = true.
Proof.
  induction f as [|f IH]; intro n.
  - reflexivity.
  - cbn [dec_f]. destruct (n <? 10) eqn:E.
    + apply N.ltb_lt in E. cbn [forallb]. rewrite is_digit_48 by assumption. reflexivity.
    + rewrite dec_f_acc, forallb_app, IH. cbn [forallb].
      rewrite is_digit_48 by (apply N.mod_lt; lia). reflexivity.
Qed.

Lemma dec_f_nonempty : forall f n, dec_f (S f) n [] <> [].
Proof.
  intros f n. cbn [dec_f]. destruct (n <? 10); [discriminate|].
  rewrite dec_f_acc. destruct (dec_f f (n / 10) []); discriminate.
Qed.

Lemma dec_val : forall n, dval 0 (dec n) = n.
Proof.
  intro n. unfold dec. apply dec_f_val.
  rewrite Nnat.Nat2N.inj_succ, Nnat.N2Nat.id, N.pow_succ_r'.
  pose proof (N.size_gt n). lia.
Qed.
Lemma dec_digits : forall n, forallb is_digit (dec n) = true.
Proof. intro. apply dec_f_digits. Qed.
Lemma dec_nonempty : forall n, dec n <> [].
Proof. intro. apply dec_f_nonempty. Qed.

Definition nodigit_follows (rest : bytes) : Prop :=
  match rest with [] => True | c :: _ => is_digit c = false end.

Lemma take_digits_app : forall ds rest, forallb is_digit ds = true -> nodigit_follows rest ->
  take_digits (ds ++ rest) = (ds, rest).
Proof.
  induction ds as [|c ds IH]; intros rest H D.
  - cbn [app]. destruct rest as [|d r]; [reflexivity|]. cbn in D. cbn [take_digits]. rewrite D. reflexivity.
  - cbn [forallb] in H. apply andb_true_iff in H. destruct H as [Hc Hs].
    cbn [app take_digits]. rewrite Hc, (IH rest Hs D). reflexivity.
Qed.

