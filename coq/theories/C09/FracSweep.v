(** C09 — the fraction digits of {:.6} after trimming: complete sweep of 0 .. 999999
    (kept in its own file: the sweep takes about two minutes and compiles in parallel). *)
From OxVerif Require Import Base.Util C09.Model.

Definition frac_ok (x : N) : bool :=
  let d := trim0 (pad6 x) in
  forallb is_digit d && Nat.leb (length d) 6
  && (dval 0 d * 10 ^ (6 - N.of_nat (length d)) =? x)
  && (Bool.eqb (x =? 0) (match d with [] => true | _ => false end)).
Lemma frac_sweep : forall x, x < 1000000 -> frac_ok x = true.
Proof. apply allb_spec. vm_compute. reflexivity. Qed.
