#!/bin/bash
# usage: try_seeded.sh Cxx DIR   — apply DIR/patch.diff to /repo, run ./check Cxx, undo; output to DIR/check_output.txt
# (DIR is e.g. /tmp/mut/C04_out/1 or /verif/seeded/C04/1).  /repo must be clean.
pid=$1; d=$2; shift 2
cd /repo || exit 2
if [ -n "$(git status --porcelain --untracked-files=no)" ]; then echo "/repo not clean"; exit 2; fi
git apply --check "$d/patch.diff" || { echo "patch does not apply"; exit 3; }
git apply "$d/patch.diff"
cd /verif
for p in $pid "$@"; do
  echo "== ./check $p with $d/patch.diff applied" 
  timeout 3000 ./check $p 2>&1 | cut -c1-400 | grep -v "^\[C..\] \(coq\|props\|harness\)" | tail -12
done > "$d/check_output.txt" 2>&1
git -C /repo checkout -- .
tail -6 "$d/check_output.txt"
