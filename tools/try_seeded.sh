#!/bin/bash
# usage: try_seeded.sh Cxx DIR [more Cyy...] — apply DIR/patch.diff to a PRIVATE worktree of /repo (/tmp/seedtest/repo,
# reset to /repo HEAD first), run ./check Cxx in a private clone of /verif (/tmp/seedtest/verif, synced to /verif HEAD),
# undo; output to DIR/check_output.txt.  /verif and /repo themselves are not touched.
pid=$1; d=$2; shift 2
S=/tmp/seedtest
# bootstrap the private copies when absent (remove them afterwards: git -C /repo worktree remove --force $S/repo; rm -rf $S)
[ -d $S/repo ] || { mkdir -p $S; git -C /repo worktree add -q --detach $S/repo HEAD; }
[ -d $S/verif ] || git clone -q /verif $S/verif
git -C $S/repo checkout -- . ; git -C $S/repo checkout -q --detach $(git -C /repo rev-parse HEAD)
( cd $S/verif && git reset -q --hard && git pull -q --no-edit /verif main >/dev/null 2>&1 )
cd $S/repo || exit 2
git apply --check "$d/patch.diff" || { echo "patch does not apply" | tee "$d/check_output.txt"; exit 3; }
git apply "$d/patch.diff"
cd $S/verif
export OXVERIF_REPO=$S/repo
for p in $pid "$@"; do
  echo "== ./check $p with $d/patch.diff applied"
  timeout 3600 ./check $p 2>&1 | cut -c1-400 | grep -v "^\[C..\] \(coq\|props\|harness\)" | tail -12
done > "$d/check_output.txt" 2>&1
git -C $S/repo checkout -- .
tail -6 "$d/check_output.txt"
