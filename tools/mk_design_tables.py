#!/usr/bin/env python3
"""Regenerates the machine-written tables of DESIGN.md (between the AUTOGEN markers): fixes, known findings, seeded mutations."""
import glob, json, os, re, subprocess
ROOT = "/verif"
def fixes():
    log = subprocess.run("git -C /repo log --reverse --format='%h %s' aed0ab71..HEAD", shell=True, capture_output=True, text=True).stdout.splitlines()
    rows = ["| commit | repair |", "|---|---|"]
    for l in log:
        h, s = l.split(" ", 1)
        if s.startswith("fix:"):
            rows.append("| %s | %s |" % (h, s[4:].strip().replace("|", "/")))
    hooks = [l for l in log if "verif hook" in l]
    return "\n".join(rows) + "\n\nHook commits (cfg `oxidizepdf_verif`, add-only): " + "; ".join(h.split(" ", 1)[0] for h in hooks) + "."
def findings():
    k = json.load(open(os.path.join(ROOT, "KNOWN_FINDINGS.json")))["findings"]
    rows = ["| property | id | status | what |", "|---|---|---|---|"]
    for f in k:
        rows.append("| %s | %s | %s | %s |" % (f["property"], f["id"], f["status"], re.sub(r"^fixed: property=\S+ \S+ ", "", f["what"]).replace("|", "/")[:260]))
    return "\n".join(rows)
def seeded():
    rows = ["| property | # | change (author's words, abridged) | caught | how |", "|---|---|---|---|---|"]
    for f in sorted(glob.glob(os.path.join(ROOT, "seeded", "C*", "*", "meta.json"))):
        m = json.load(open(f))
        i = f.split("/")[-2]
        summ = (m.get("breaks") or m.get("summary") or "").replace("|", "/").replace("\n", " ")[:230]
        caught = m.get("caught", "caught_by" in m)
        how = m.get("caught_by") or ("concrete replay" if m.get("caught_with_concrete_replay") else ("obligation only (no-failing-input-found)" if caught else "MISSED"))
        if m.get("strengthened"): how += "; " + m["strengthened"]
        rows.append("| %s | %s | %s | %s | %s |" % (m["property"], i, summ, "yes" if caught else "NO", how.replace("|", "/")[:200]))
    return "\n".join(rows)
def summary():
    k = json.load(open(os.path.join(ROOT, "KNOWN_FINDINGS.json")))["findings"]
    rows = ["| property | theorems pinned in Props | Coq lines (theories) | technique | open findings | fixed defects | notes |", "|---|---|---|---|---|---|---|"]
    for f in sorted(glob.glob(os.path.join(ROOT, "lib", "claims", "C*.json"))):
        pid = os.path.basename(f)[:-5]
        c = json.load(open(f))
        props = os.path.join(ROOT, "coq", "Props", pid + ".v")
        nob = len(re.findall(r"^\s*Print Assumptions\s", open(props).read(), flags=re.M)) if os.path.exists(props) else 0
        lines = 0
        for d in glob.glob(os.path.join(ROOT, "coq", "theories", pid, "*.v")):
            lines += sum(1 for _ in open(d))
        if pid == "C08":
            lines = "(in C07)"
        o = sum(1 for x in k if x["property"] == pid and x["status"] == "open")
        fx = sum(1 for x in k if x["property"] == pid and x["status"] == "fixed")
        note = "notes/%s.md" % pid if os.path.exists(os.path.join(ROOT, "notes", pid + ".md")) else ("notes/C07.md" if pid == "C08" else "lib/claims/%s.json" % pid)
        rows.append("| %s | %d | %s | %s | %d | %d | %s |" % (pid, nob, lines, c["technique"].replace("|", "/")[:150], o, fx, note))
    return "\n".join(rows)
s = open(os.path.join(ROOT, "DESIGN.md")).read()
for name, fn in (("FIXES", fixes), ("FINDINGS", findings), ("SEEDED", seeded), ("SUMMARY", summary)):
    a, b = "<!-- AUTOGEN %s BEGIN -->" % name, "<!-- AUTOGEN %s END -->" % name
    if a in s:
        s = s[:s.index(a) + len(a)] + "\n" + fn() + "\n" + s[s.index(b):]
open(os.path.join(ROOT, "DESIGN.md"), "w").write(s)
print("DESIGN.md tables regenerated")
