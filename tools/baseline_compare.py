#!/usr/bin/env python3
"""baseline_compare.py LOG — which FAIL lines of a nextest log are tests that BASELINE.json lists as stable_pass"""
import json, re, sys
b = json.load(open('/root/.vp/BASELINE.json'))
stable = set(b['stable_pass'])
fails = set()
for l in open(sys.argv[1]):
    m = re.search(r"FAIL \[[^\]]*\]\s*(?:\(\S+\)\s*)?(\S+)\s+(\S+)", l)
    if m:
        fails.add(m.group(1) + "::" + m.group(2))
reg = sorted(f for f in fails if f in stable)
print("failing tests:", len(fails), " of which stable in baseline (REGRESSIONS):", len(reg))
for r in reg: print("  REGRESSION", r)
for l in open(sys.argv[1]):
    if "Summary" in l: print(l.strip())
