#!/usr/bin/env python3
import json, sys
pid = sys.argv[1]
for l in open('/verif/properties.jsonl'):
    p = json.loads(l)
    if p['id'] == pid:
        break
print(f"""You are helping test a verification effort by playing the adversary. You have your own scratch git worktree of the Rust library bzsanti/oxidizePdf at /tmp/mut/{pid} (crate in /tmp/mut/{pid}/oxidize-pdf-core; builds offline with `cargo build --offline` / `cargo test --offline`; no network). Work ONLY inside /tmp/mut/{pid} (and /tmp/mut/{pid}_out for your deliverables). Do not look at or touch /verif, /repo or any other /tmp directory.

The library is supposed to satisfy this property:

"{pid} — {p['title']}. {p['statement']}"
(quantified over: {p['quantifier']['text']})
(code involved: {', '.join(p['anchors']['files'])}; items guarded by #[cfg(oxidizepdf_verif)] are test hooks — leave them alone.)

Task: produce TWO different, realistic-looking changes to the library source (each the kind of edit a developer could make while refactoring, optimising or "fixing" something) that BREAK this property while the crate still compiles and the existing tests still pass. Prefer changes that need something specific to manifest — a multi-step sequence of operations, an unusual input or parameter value, a boundary size, a particular interleaving, or two cooperating sites that each look fine alone — rather than ones ordinary use exposes at once. At least one of the two must be subtle in that sense. Do not merely undo a recent commit of the repository (look at `git log` to avoid that).

For each change i in {{1,2}} deliver in /tmp/mut/{pid}_out/<i>/:
- patch.diff (output of `git diff` in /tmp/mut/{pid} for that change alone; reset the worktree between the two with `git checkout -- .`),
- a demonstration: a small Rust integration test file demo.rs (you place it under oxidize-pdf-core/tests/ while trying it, but do NOT include it in patch.diff) that FAILS with the change applied and PASSES on the unchanged source,
- notes.md: what the change is, what it needs in order to manifest, and the exact commands you ran with their outcome, including evidence that the existing tests still pass with the change: run the unit tests of the touched modules (`cargo test --offline -p oxidize-pdf --lib <module::path>`) and the integration tests under tests/ that exercise the touched code (grep for the relevant API names); state pass/fail counts.
The machine is shared: build with `CARGO_TARGET_DIR=/tmp/mut/{pid}/target cargo ... -j 4`, and delete /tmp/mut/{pid}/target when you are done. Leave the worktree itself in place (reset to unchanged). Report briefly (<= 15 lines) what the two changes are.""")
