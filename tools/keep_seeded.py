#!/usr/bin/env python3
"""keep_seeded.py Cxx i  — copy /tmp/mut/Cxx_out/i into /verif/seeded/Cxx/i with a meta.json"""
import json, os, re, shutil, sys
pid, i = sys.argv[1], sys.argv[2]
src = f"/tmp/mut/{pid}_out/{i}"
dst = f"/verif/seeded/{pid}/{i}"
os.makedirs(dst, exist_ok=True)
for f in ("patch.diff", "demo.rs", "notes.md", "check_output.txt"):
    if os.path.exists(os.path.join(src, f)):
        shutil.copy(os.path.join(src, f), dst)
notes = open(os.path.join(src, "notes.md")).read() if os.path.exists(os.path.join(src, "notes.md")) else ""
out = open(os.path.join(src, "check_output.txt")).read() if os.path.exists(os.path.join(src, "check_output.txt")) else ""
viol = [l for l in out.splitlines() if l.startswith("VIOLATION")]
caught = bool(viol)
concrete = any("no-failing-input-found" not in l for l in viol)
files = sorted(set(re.findall(r"^\+\+\+ b/(\S+)", open(os.path.join(src, "patch.diff")).read(), flags=re.M)))
meta = {
    "property": pid,
    "source": "independent sub-agent given only the property text and a scratch worktree of /repo HEAD",
    "touches": files,
    "summary": " ".join(notes.strip().splitlines()[:6])[:900],
    "needs_to_manifest": "see notes.md (written by the author of the change)",
    "what_was_run": [
        "author: demo.rs fails with the patch and passes without; existing unit/integration tests of the touched modules pass with the patch (counts in notes.md)",
        f"integrator: tools/try_seeded.sh {pid} {src} — patch applied to a private worktree of /repo HEAD, ./check {pid} (quick, seed 1) run in a private clone of /verif, then undone; output in check_output.txt",
    ],
    "caught": caught,
    "caught_with_concrete_replay": concrete,
    "violation_lines": viol[:3],
}
json.dump(meta, open(os.path.join(dst, "meta.json"), "w"), indent=1)
print(pid, i, "caught" if caught else "MISSED", "concrete" if concrete else "")
